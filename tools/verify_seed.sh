#!/bin/bash
# usage: tools_verify_seed.sh <seed-dir>   (seed-dir has patch.diff and run-demo.sh)
# Uses the persistent scratch worktree /tmp/vs (already built).  Confirms:
#  demo passes unchanged; with patch: builds, 66 tests pass, demo fails.  Restores the tree.
set -u
S=$(realpath "$1"); W=/tmp/vs
# the scratch worktree is (re)created on demand and may be removed at any time: git -C /repo worktree remove --force /tmp/vs
if [ ! -d $W ]; then
  git -C /repo worktree add --detach $W HEAD -q || exit 2
  (cd $W && cmake -G Ninja -B _build . >/dev/null 2>&1)
fi
cd $W || exit 2
git checkout -q --detach $(git -C /repo rev-parse HEAD) 2>/dev/null
git checkout -q -- . ; git clean -fdq -e _build
cmake --build _build -- -j8 -k 0 >/dev/null 2>&1
echo "== demo on unchanged tree"; (cd $S && timeout 600 bash ./run-demo.sh $W >/tmp/vs-demo0.log 2>&1); r0=$?
D=$W; if [ $r0 -eq 2 ]; then D=$W/_build; (cd $S && timeout 600 bash ./run-demo.sh $D >/tmp/vs-demo0.log 2>&1); r0=$?; fi   # some demos take the build directory
echo "rc=$r0"
git apply "$S/patch.diff" || { echo "PATCH DOES NOT APPLY"; exit 3; }
echo "== build with patch"; cmake --build _build -- -j8 -k 0 2>&1 | grep -E "error|FAILED" | grep -v "libzwerg.so\|dwgrep$\|collect2\|libzwerg.map" | head -5
echo "== ctest with patch"; ctest --test-dir _build -j8 --timeout 900 2>&1 | grep -E "tests passed|Failed|\*\*\*" | head
for t in test-dw test-op test-value-cst test-builtin-cmp test-coverage; do (cd _build/libzwerg && ./$t 2>&1 | grep -E "^\[  (PASSED|FAILED)" | tr '\n' ' '); done; echo
echo "== demo on changed tree"; (cd $S && timeout 600 bash ./run-demo.sh $D >/tmp/vs-demo1.log 2>&1); r1=$?; echo "rc=$r1"; tail -3 /tmp/vs-demo1.log
git checkout -q -- . ; git clean -fdq -e _build
cmake --build _build -- -j8 -k 0 >/dev/null 2>&1
if [ $r0 -eq 0 ] && [ $r1 -ne 0 ]; then echo "SEED-OK"; else echo "SEED-BAD r0=$r0 r1=$r1"; fi
