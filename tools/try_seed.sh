#!/bin/bash
# usage: tools/try_seed.sh <seed-dir> <property> [--only entries]
# applies the seeded change to /repo, runs the check, restores /repo.  Prints the check's verdict.
S=$(realpath "$1"); P=$2; shift 2
cd /repo || exit 2
git diff --quiet || { echo "/repo has uncommitted changes"; exit 2; }
git apply "$S/patch.diff" || { echo "patch does not apply"; exit 3; }
trap 'cd /repo && git checkout -q -- .' EXIT
cd /verif && VERIF_EVIDENCE_SUFFIX=.seed bin/check $P "$@" 2>&1 | grep -a -E "VIOLATION|KNOWN-FINDING|SUMMARY|INCONCLUSIVE" | cut -c1-260 | head -12
