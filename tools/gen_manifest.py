#!/usr/bin/env python3
"""writes /verif/MANIFEST.json from the table below (kept in one place so that claims, notes and
not-applicable reasons stay consistent with DESIGN.md)"""
import json, os, subprocess
V = os.path.dirname(os.path.dirname(os.path.abspath(__file__)))

TECH = "real sources -> clang-14 LLVM IR -> own IR-to-C translator (engine/ll2c.py) -> CBMC 6.11 bounded symbolic model checking (SAT); counterexamples and reachability witnesses replayed on a native ASan/UBSan build of the real code"

CLAIMED = {
 'C01': ("For each stateful construct (ALT, OR, ?pred, if-then-else, sub-expression with kept value, capture, ALT nested in OR, ALT nested in ALT) the real "
         "operator classes of op.cc, wired as build.cc wires them, are executed symbolically between protocol stubs and compared with the documented "
         "denotation applied to each input stack alone (multiset per input, order when the input was alone, nothing kept back across a re-feed, "
         "re-feedable after nullptr). Bound: <=2 inputs (3 for nested ALT in the thorough tier), 2 re-feed epochs, <=1-2 results per input and "
         "sub-expression; every valid control scenario is covered, payload tokens are symbolic.",
         "Programs are not symbolic (parser/builder outside, DESIGN 7); sub-expressions are mapping stubs; control scenarios are enumerated as a symbolic "
         "scenario number per solver run while payload is symbolic (DESIGN 2.5); closures/let/format are not covered by this check.", '6/C01'),
 'C04': ("Three-valued predicate kernel: for all 3x3 outcomes, ?X and !X are complementary and both fail to hold when X reports an error "
         "(pred_result operators, pred_not/and/or::result, maybe_invert); the stack-preservation clauses are asserted inside the C01 harnesses "
         "(c01_assert/c01_subx/c01_capture: the caller's stack is intact below what is added).",
         "Operand predicates are stubs; infix desugaring in the grammar and the DWARF ?words are outside (DESIGN 7).", '6/C04'),
 'C08': ("All of int.cc is checked for ALL operand pairs (64-bit payload x signedness on both sides, i.e. both representations of every non-negative "
         "value): +, -, unary -, six comparisons, * against an exact 128-bit oracle; / and % against the defining property of floor division "
         "(0 <= a - q*b < |b| with the divisor's sign) with error iff the exact result is outside [-2^63, 2^64-1].",
         "64x64 multipliers/dividers are made tractable by routing every product through one kernel that also asserts the (true) functional-"
         "consistency lemma; unary minus is checked under its callers' contract (never a positive value carrying the signed flag); parse_int and "
         "simple_arith_op are not covered yet.", '6/C08'),
 'C09': ("constant::operator< and the derived ==, !=, <=, >=, > over all pairs and triples of constants (64-bit payload x signedness x 16 real domain "
         "objects incl. dec/hex/oct/bin/bool/line/column and the ELF STT/STB/STV domains of 5 machines, + no domain): trichotomy, symmetry, "
         "reflexivity, transitivity of < and ==, congruence, by-value comparison of arithmetic domains, unrelated named domains never equal.",
         "The address order of the domain objects is the native build's (read at check time); strings, sequences, address sets, DIEs, stacks and the "
         "alias table of comparison words are outside this check.", '6/C09'),
 'C16': ("coverage.cc as one inductive step from an arbitrary canonical pre-state of K runs: add/remove/is_covered/is_overlap/intersect/operator+,-,== "
         "against a membership oracle with a symbolic probe address, INV (ascending, disjoint, non-adjacent, non-empty) proved inductive; all values "
         "symbolic inside a 2^6 (quick) / 2^8 (thorough) window placed at 0, around 2^32, around 2^63 and just below 2^64-1; K<=2-3 quick, 3-4 thorough.",
         "libstdc++'s vector reallocation path is trapped (proved unreachable after reserve) for add/remove/query; Zwerg-level words of builtin-aset.cc "
         "and the textual rendering are outside this check.", '6/C16'),
}

NA = {
 'C02': "libdw iterators (dwit.cc, cache.cc) need the libdw contract model and std::map/vector heaps; not reached in the time available (DESIGN 7)",
 'C03': "bindings/uprefs use std::map<std::string,...> and the run-time part needs the operator harness with closures; symbolic execution of that heap did not come within reach (DESIGN 2.5, 7)",
 'C05': "needs the libdw contract model plus import chains of shared_ptr; not reached (DESIGN 7)",
 'C06': "needs the libdw contract model and attribute_producer's vector/scheduling heap; not reached (DESIGN 7)",
 'C07': "at_value's form dispatch calls into libdw at every step; only leaf kernels would be encodable and were not reached (DESIGN 7)",
 'C10': "op_tr_closure keeps a std::set<shared_ptr<stack>> ordered by value comparison: control depends on symbolic data, and CBMC's symbolic execution of merged C++ heap states did not terminate (DESIGN 2.5)",
 'C11': "core words are overload instantiations over value_str/value_seq with std::string/std::vector heaps; stack-profile and selector kernels not reached in time (DESIGN 7)",
 'C12': "needs two state buffers over one operator graph with a symbolic schedule, i.e. merged control over the C++ heap, which CBMC's symbolic execution does not get through (DESIGN 2.5)",
 'C13': "cross-cutting: every claimed harness runs with CBMC's pointer/bounds checks and the translator's UB assertions, but the lifecycle shadow map and abandonment harnesses were not built, so the property is not claimed",
 'C14': "lexer+parser as a whole are out of reach for the solver route (DESIGN 7); the numeric kernels and API wrappers were not reached in time",
 'C15': "needs lexer/parser and execution of both sides; tree::simplify over vector<tree> not reached (DESIGN 7)",
 'C17': "needs the libdw contract model (location lists, abbreviations); not reached (DESIGN 7)",
 'C18': "needs the libdwfl module/symbol model; the per-machine domain logic is covered under C09 only",
 'C19': "main() of the CLI is a 400-line monolith behind getopt/iostream/file I/O; the observables are the effects of those externals (DESIGN 7)",
 'C20': "needs an ostream byte-sink model (width/fill/basefield) for dump_charp and the dwcst stringers; not reached in time (DESIGN 7)",
}

def main():
    ids = [json.loads(l)['id'] for l in open(os.path.join(V, 'properties.jsonl'))]
    hooks_commits = []
    checks = []
    for pid in ids:
        if pid not in CLAIMED:
            continue
        text, note, ref = CLAIMED[pid]
        checks.append(dict(
            property_id=pid,
            quick_cmd='bin/check %s --tier quick' % pid,
            thorough_cmd='bin/check %s --tier thorough' % pid,
            evidence_file='evidence/%s.json' % pid,
            replay_cmd_template='bin/check %s --replay {path}' % pid,
            engine='ll2c+cbmc',
            level_claimed=dict(category='model_checking', text=text, design_ref='DESIGN.md ' + ref),
            level_note=note,
            technique=TECH))
    man = dict(
        version=1,
        setup_cmd='bin/setup',
        hooks=dict(guard='DWGREP_VERIF', enable='bin/check passes -DDWGREP_VERIF when lowering /repo sources to IR and when building the native replay objects',
                   baseline_off_cmd='cmake --build /repo/_build -- -k 0 ; ctest --test-dir /repo/_build -j8 --timeout 900',
                   source_commits=hooks_commits, add_only=True),
        engines=[dict(name='ll2c+cbmc', path='engine/', serves_properties=sorted(CLAIMED),
                      kind_free_text='clang-14 IR -> C translator (engine/ll2c.py) + CBMC 6.11 driver (engine/vpcheck.py) + C models of the C++ runtime (stubs/)')],
        checks=checks,
        not_applicable=[dict(property_id=p, reason=NA[p]) for p in ids if p not in CLAIMED],
        notes='No source hooks were needed so far: everything is reached through IR-level linkage and function replacement. Repairs of genuine defects are the fix: commits listed in known-findings.txt.')
    json.dump(man, open(os.path.join(V, 'MANIFEST.json'), 'w'), indent=1)
    print('claimed', sorted(CLAIMED), 'n/a', [p for p in ids if p not in CLAIMED])

if __name__ == '__main__':
    main()
