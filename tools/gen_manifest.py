#!/usr/bin/env python3
"""writes /verif/MANIFEST.json from the table below (kept in one place so that claims, notes and
not-applicable reasons stay consistent with DESIGN.md)"""
import json, os, subprocess
V = os.path.dirname(os.path.dirname(os.path.abspath(__file__)))

TECH = "real sources -> clang-14 LLVM IR -> own IR-to-C translator (engine/ll2c.py) -> CBMC 6.11 bounded symbolic model checking (SAT); counterexamples and reachability witnesses replayed on a native ASan/UBSan build of the real code"

CLAIMED = {
 'C01': ("For each stateful construct (ALT, OR, ?pred, if-then-else, sub-expression with kept value, capture, ALT nested in OR, ALT nested in ALT) the real "
         "operator classes of op.cc, wired as build.cc wires them, are executed symbolically between protocol stubs and compared with the documented "
         "denotation applied to each input stack alone (multiset per input, order when the input was alone, nothing kept back across a re-feed, "
         "re-feedable after nullptr). Bound: <=2 inputs (3 for nested ALT in the thorough tier), 2 re-feed epochs, <=1-2 results per input and "
         "sub-expression; every valid control scenario is covered, payload tokens are symbolic.",
         "Programs are not symbolic (parser/builder outside, DESIGN 7); sub-expressions are mapping stubs; control scenarios are enumerated as a symbolic "
         "scenario number per solver run while payload is symbolic (DESIGN 2.5); closures/let/format are not covered by this check.", '6/C01'),
 'C04': ("Three-valued predicate kernel: for all 3x3 outcomes, ?X and !X are complementary and both fail to hold when X reports an error "
         "(pred_result operators, pred_not/and/or::result, maybe_invert); an overloaded word that matches no overload reports an error and then neither "
         "?word nor !word holds (overload_pred::result over the real overload table); the stack-preservation clauses are checked on the real "
         "op_assert / op_subx / op_capture between protocol stubs, including a sub-expression that overwrites its copy of the stack "
         "(c01_assert, c01_subx, c01_subx_mut, c01_capture: the caller's stack is intact below what is added).",
         "Operand predicates are stubs; infix desugaring in the grammar and the DWARF ?words are outside (DESIGN 7).", '6/C04'),
 'C07': ("Kernel only (clause: integral data with the signedness implied by the encoding of the DIE's type; uninterpreted encodings are reported): "
         "handle_encoding / handle_encoding_data / handle_encoding_block / fix_dwarf_formsdata / atval_signed / atval_unsigned of atval.cc (compiled into "
         "the harness TU), over libdw stubs that admit BOTH the zero-extending dwarf_formsdata of elfutils <= 0.170 and the sign-extending one of later "
         "versions: for every DW_FORM_data1/2/4/8 datum and every DW_FORM_block1 of 1, 2, 4, 8 bytes with fully symbolic content, and every DW_ATE_* "
         "encoding of dwarf.h plus lo_user, hi_user and undefined codes, a signed encoding yields the sign-extended value of the datum's width as a "
         "signed decimal constant, an unsigned / address / UTF encoding the zero-extended value, boolean a constant of the bool domain, the float / "
         "fixed / decimal encodings and blocks of other sizes no value (left to the caller), and any other encoding a std::runtime_error; exactly one "
         "value is produced.",
         "NOT covered: which type a DIE's attribute is decoded by (handle_at_dependent_value chases DW_AT_type through libdw), LEB128 forms, strings, "
         "references, flags, addresses, enumerated attributes, location expressions (operand typing is the C17 kernel), big-endian files. libdw is a "
         "stub written from its documentation (harness/c07.cc).", '0.3'),
 'C08': ("All of int.cc is checked for ALL operand pairs (64-bit payload x signedness on both sides, i.e. both representations of every non-negative "
         "value): +, -, unary -, six comparisons, * against an exact 128-bit oracle; / and % against the defining property of floor division "
         "(0 <= a - q*b < |b| with the divisor's sign) with error iff the exact result is outside [-2^63, 2^64-1].",
         "64x64 multipliers/dividers are made tractable by routing every product through one kernel that also asserts the (true) functional-"
         "consistency lemma; unary minus is checked under its callers' contract (never a positive value carrying the signed flag); integer literals "
         "are covered through parse_int on boundary literals (harness/c14.cc); simple_arith_op is not covered.", '6/C08'),
 'C09': ("constant::operator< and the derived ==, !=, <=, >=, > over all pairs and triples of constants (64-bit payload x signedness x 16 real domain "
         "objects incl. dec/hex/oct/bin/bool/line/column and the ELF STT/STB/STV domains of 5 machines, + no domain): trichotomy, symmetry, "
         "reflexivity, transitivity of < and ==, congruence, by-value comparison of arithmetic domains, unrelated named domains never equal. Address sets: "
         "value_aset::cmp over triples of sets with <=2 runs and fully symbolic 64-bit bounds is a total order, equal exactly for equal sets.",
         "The address order of the domain objects is the native build's (read at check time); strings, sequences, address sets, DIEs, stacks and the "
         "alias table of comparison words are outside this check.", '6/C09'),
 'C11': ("Kernel of the clause 'word behaviour depends only on the values near the top of the stack': stack::push/pop/drop keep the cached type "
         "profile (top four slots) equal to the list model at every depth 0..6 for symbolic type codes (one inductive step per depth), and a "
         "selector of 1..4 type codes (0 = any) matches a stack profile iff the top k type codes agree.",
         "The word implementations themselves (length, elem, relem, add, ?find, ?starts, ?ends, ?match, value, hex/dec/oct/bin, type, pos, shuffles) "
         "are NOT covered: they are overload instantiations over std::string / std::vector heaps that were not reached (DESIGN 0.4).", '0.3'),
 'C03': ("Kernel only, run time (clause: a name pushes the value it was bound to for the very input stack being processed): the real op_bind / op_read "
         "(op.cc) with op_apply in its pass-through role (builtin-closure.cc), wired as build.cc wires BIND and READ, with -- between the binder and the "
         "read -- a body yielding 0..M results per input, an ALT of two bodies, a second binder with its own body (two names live at once), or a "
         "sub-expression context around the read: for every input count <= T, every token assignment, every split of the inputs into two re-feed epochs "
         "and every body behaviour, each result carries exactly the value bound for the input it derives from, the body's results pass unchanged, and "
         "there are as many results per input as the body yields. T<=2, M<=1 quick / 2 thorough.",
         "NOT covered: name resolution at compile time (bindings::bind/find, shadowing, rebinding and unbound-name errors), blocks and closures "
         "(uprefs, op_lex_closure, op_upread, op_apply applying a closure) -- std::map and the BLOCK case of build.cc were not encoded (DESIGN 0.4).", '0.3'),
 'C12': ("Three kernels. (a) Clause: executions never influence one another, whether consumed fully, interleaved or abandoned): over ONE real operator "
         "graph -- ALT (op_merge/op_tine), OR (op_or), sub-expression (op_subx) of op.cc wired as build.cc wires them, between protocol stubs -- two "
         "executions with their own state areas (scon over the graph's layout, as zw_result holds it) on the same, disjoint or overlapping input "
         "stacks, pulled alternately from either side, one after the other, with one side abandoned after one pull and torn down first, or one side "
         "suspended, each yield exactly the result sequence (values, order, depth, position) of a fresh run on the same input; an abandoned execution "
         "yields a prefix of it. 2 input stacks, <= 1 result per input and sub-expression, payload tokens symbolic; quick: 36 selected scenarios per "
         "graph, thorough: all 720 (two sub-expressions) / 180. (b) Values are deep-copied when stacks are copied: after stack(stack const&) or "
         "value::clone of a sequence (length 0..2, optionally with a nested sequence of length 0..1 as first element), appending in place to the copy and to "
         "its nested sequence -- what `add' does to its left operand -- leaves the original's length and elements unchanged, also after the copy is "
         "destroyed. (c) The same construct compiled twice: the tree append_drop_below (parser.yy) builds for a bracket with d2 back quotes drops exactly "
         "d2 values below TOS whatever bracket (d1 back quotes) was compiled before it in the same process (d1, d2 in 1..3; the drop is executed through the "
         "real builtin and op_drop_below on a five-value stack).",
         "NOT covered: other constructs compiled twice (the parser as a whole is not encoded), zw_result/zw_query_execute (they are exercised by the C14 API kernel over a stub operator), "
         "closures and blocks (op_apply, op_tr_closure), process-global state inside word implementations (e.g. ?match), cache.cc / DWARF values reused across executions, three live result "
         "sets (DESIGN 0.3/0.4).", '0.3'),
 'C13': ("(1) layout::reserve/add_union: every series of 4 reservations (size 1..64, alignment 1..16) yields aligned, pairwise disjoint locations "
         "inside size(), add_union takes the maximum -- no two live states overlap in the shared area. (1b) pred_subx_any / scon_guard destroy the state "
         "of a sub-expression exactly once, also when the sub-expression throws. (2) The real ALT / OR (thorough: also "
         "if-then-else, nested ALT) operator graphs with the result set abandoned after 0..4 pulls and torn down, every valid control scenario, "
         "under CBMC's pointer/bounds/use-after-free checks, --memory-leak-check and the translator's UB assertions; every other claimed "
         "harness runs under the same memory checks. (3) The state layout the REAL builder produces: an if-then-else tree (thorough: also ALT and OR "
         "trees) whose leaves are stub builtins is handed to tree::build_exec (build.cc: IFELSE / ALT / OR / F_BUILTIN cases, layout::add_union); "
         "each stub operator owns state of a different size (which branch is largest rotates) filled with a pattern that is verified on every pull "
         "and at destruction; every state reserved during the build lies inside the layout's size, no pattern is ever disturbed, and the results "
         "equal the construct's denotation for every (input count, epoch split) of 8 (quick) / all (thorough) result-count vectors.",
         "Programs that fail to compile (parser/lexer value stack) are outside; the construct-exactly-once shadow map of the state area was not "
         "built (double construction shows up only as a leak or a use-after-free); nsw/nuw overflow flags are not asserted (DESIGN 0.6).", '0.3'),
 'C14': ("Two kernels. (a) API boundary: the real zw_* entry points of libzwerg.cc with capture_errors/allocate_error (libzwergP.hh), over stubs of "
         "the parser and the op builder that fail in every way the real ones do (runtime_error, invalid_argument, out_of_range, a non-std exception) "
         "or succeed, and a protocol stub operator that yields, ends or throws at any pull index: NULL/false is returned exactly when the error object "
         "is set, its message is non-empty, no exception crosses the boundary, zw_query_parse_len hands the parser exactly query_len bytes of an "
         "exactly-sized unterminated heap buffer and reads nothing outside it, zw_query_parse the bytes before the terminator, run-time failures "
         "surface as zw_result_next() == false, values and stacks pass through unchanged (queries 0..3 bytes, strings 0..4 bytes incl. NUL, 0..2 "
         "results, input depth 0..2). (b) parse_int (the integer-literal reader of parser.yy, through the bison output regenerated at check time) with the real "
         "std::stoull header code over a C11 model of strtoull either yields the exact documented value in the domain of its radix or leaves a "
         "std::exception-derived error -- for all boundary literals around 2^63 / 2^64 in radix 16, 10, 8 (last 2-3 characters symbolic, with "
         "and without sign) and for short tokens (first two characters enumerated over digit x 21 character classes, further characters "
         "symbolic; 1 character quick, 2-3 characters thorough), against a reference reader written from doc/syntax.rst.",
         "NOT covered: the lexer and parser as wholes (any byte string reaching flex/bison: never crashes, hangs, aborts), libzwerg-dw.cc entry "
         "points, the CLI's exit status (DESIGN 0.4/7). strtoull is a model (stubs/cxxrt.c); the parser/builder/operator behind the API are stubs.", '0.3'),
 'C15': ("Kernels only. (a) The compile-time tree simplification changes no result: for EVERY tree of at most 5 (quick) / 6 (thorough) nodes over the "
         "constructs tree::simplify rewrites -- CAT and ALT nodes of 1..3 children, NOP, token-pushing leaves (518 / 2822 shapes; leaf tokens symbolic) "
         "-- the denotation of the tree (the ordered list of token sequences it pushes: a leaf pushes its token, NOP passes, CAT feeds every result of a "
         "child to the next, ALT yields its branches' results in order) is exactly the same after simplify () as before, through the real tree.cc "
         "(CAT/ALT flattening, single-child promotion, NOP removal, with the tree copy / assignment / swap they use). (b) Escape sequences denote the "
         "bytes the documentation says, numeric part: the lexer's parse_esc_num (lexer.ll, flex output regenerated at check time) returns, for every "
         "\\NNN its <STRING> rule admits (first digit 0..3, one to three octal digits) and every \\xHH, the byte with that value, never rejects one and "
         "never trips its assertions.",
         "NOT covered: everything the lexer and parser do -- whitespace and comments, redundant parentheses, string continuation, raw strings, the "
         "single-character escapes, %s %d %x %o %b expansion, E?, if-then-else, ?(E), infix operators -- and the FORMAT(STR) -> STR rewrite; the flex and "
         "bison automata are not encoded (DESIGN 0.4).", '0.3'),
 'C16': ("coverage.cc as one inductive step from an arbitrary canonical pre-state of K runs: add/remove/is_covered/is_overlap/intersect/operator+,-,== "
         "against a membership oracle with a symbolic probe address, INV (ascending, disjoint, non-adjacent, non-empty) proved inductive; all values "
         "symbolic inside a 2^6 (quick) / 2^8 (thorough) window placed at 0, around 2^32, around 2^63 and just below 2^64-1; K<=2-3 quick, 3-4 thorough.",
         "libstdc++'s vector reallocation path is trapped (proved unreachable after reserve) for add/remove/query; Zwerg-level words of builtin-aset.cc "
         "and the textual rendering are outside this check.", '6/C16'),
 'C17': ("Kernel only: for every location-expression opcode 0..255 (scenario digit) and fully symbolic 64-bit operand words, dwop_number / "
         "dwop_number2 (locexpr_op_values, atval.cc) yield exactly the operands of the opcode's class -- none / one unsigned / one signed / one "
         "hexadecimal address / two unsigned / unsigned+signed -- with the stored word read with the right signedness, each yielded once; the "
         "class table is written from the DWARF 5 standard independently of atval.cc.",
         "NOT covered: location lists and their element numbering, length/elem/relem, ?OP_x, address, abbreviations (all need the libdw contract "
         "model), opcodes whose operands libdw resolves (implicit_value, implicit_pointer, entry_value, const_type).", '0.3'),
 'C18': ("Kernel only (clause: type and binding are rendered in the constant family of the file's machine): for the generic domain and the "
         "machines ARM, SPARC, PARISC, MIPS, X86_64, every STT / STB / STV code 0..15 renders -- through the real show()/most_enclosing() of "
         "value-symbol.cc over an ostream byte-sink model -- as the name /usr/include/elf.h (parsed independently) gives it for that machine, "
         "machine-specific names only under their machine, and unnamed codes never as a known name; and for every ordered pair of different "
         "machines and EVERY 64-bit code, a code that elf.h names for at least one of the two machines compares unequal (and strictly ordered one way) "
         "between the two machines' STT / STB domains, while a code below LOOS is the same constant for both (constant::operator==, !=, < with the "
         "domains' most_enclosing).",
         "NOT covered: iteration over the symbol table (every entry once, in order, numbered from zero) and the name/value/size/label/binding/"
         "visibility accessors -- they need a model of libdwfl/libelf, which was not built.", '0.3'),
 'C20': ("Three kernels. (a) Named constants have the value/name the headers define: for each of 17 constant families (DW_TAG, DW_AT, DW_FORM, "
         "DW_LANG, DW_INL, DW_ATE, DW_ACCESS, DW_VIS, DW_VIRTUALITY, DW_ID, DW_CC, DW_ORD, DW_DSC, DW_DS, DW_OP, DW_END, DW_DEFAULTED) the "
         "stringer of dwcst.cc (its tables regenerated through known-dwarf.awk at check time) returns, for EVERY int code, a name exactly when "
         "/usr/include/dwarf.h (parsed independently by the check) defines that code in the family, the name is the header's, the brief form is "
         "the name without the family prefix, and no undefined code is rendered as a known name. (b) Integers render in their domain's radix so that "
         "the text reads back as the same value in the same domain: the real show() of the dec/hex/oct/bin domains (constant.cc), operator<<(mpz_class) "
         "and unary minus (int.cc), ios_flag_saver and libstdc++'s inline flag code, over a formatting stream model, produce for every unsigned, "
         "signed non-negative and signed negative value exactly [-] prefix digits (prefix 0x / 0 / 0b / none in full form, none in brief form; digits of "
         "the magnitude without leading zeros, computed independently by the harness; decimal digits as an uninterpreted function of the magnitude) "
         "and leave the stream's flags as found; every digit count for hex and oct, digit counts 1,2,31,32,33,63,64 (quick) / 1..64 (thorough) for bin. "
         "That such a text parses back to the value and domain is the C14 literal kernel. Known finding radix_zero: zero of hex/oct/bin renders as 0. "
         "(c) The CLI's brief string rendering: dumper::dump_charp (dwgrep.cc) renders every string of 0..3 arbitrary bytes (quote, backslash, control, "
         "NUL, percent, high bytes) as a quoted literal that a reader written from lexer.ll's <STRING> rules reads back, to its very end, as exactly "
         "the same bytes -- hence different values never print alike -- and leaves the stream's flags and fill character as found.",
         "NOT covered: reading names back as words (vocabulary map, lexer), the %d %x %o %b directives (lexer expansion), strings longer than 3 bytes and "
         "dump_seq / dump_const of the CLI, format_constant of the API; isprint is the C/UTF-8 locale's; ELF constant families are under C18 (DESIGN 0.4).", '0.3'),
}

NA = {
 'C02': "libdw iterators (dwit.cc, cache.cc) need the libdw contract model and std::map/vector heaps; not reached in the time available (DESIGN 7)",
 'C03': "bindings/uprefs use std::map<std::string,...> and the run-time part needs the operator harness with closures; symbolic execution of that heap did not come within reach (DESIGN 2.5, 7)",
 'C05': "needs the libdw contract model plus import chains of shared_ptr; not reached (DESIGN 7)",
 'C06': "needs the libdw contract model and attribute_producer's vector/scheduling heap; not reached (DESIGN 7)",
 'C10': "op_tr_closure keeps a std::set<shared_ptr<stack>> ordered by value comparison: control depends on symbolic data, and CBMC's symbolic execution of merged C++ heap states did not terminate; moreover libstdc++'s red-black tree rebalancing (_Rb_tree_insert_and_rebalance) lives in the shared library, not in the headers, so std::set / std::map need a hand-written model that was not built (DESIGN 2.5, 0.4)",
 'C19': "main() of the CLI is a 400-line monolith behind getopt/iostream/file I/O; the observables are the effects of those externals (DESIGN 7)",
}

def main():
    ids = [json.loads(l)['id'] for l in open(os.path.join(V, 'properties.jsonl'))]
    hooks_commits = []
    checks = []
    for pid in ids:
        if pid not in CLAIMED:
            continue
        text, note, ref = CLAIMED[pid]
        checks.append(dict(
            property_id=pid,
            quick_cmd='bin/check %s --tier quick' % pid,
            thorough_cmd='bin/check %s --tier thorough' % pid,
            evidence_file='evidence/%s.json' % pid,
            replay_cmd_template='bin/check %s --replay {path}' % pid,
            engine='ll2c+cbmc',
            level_claimed=dict(category='model_checking', text=text, design_ref='DESIGN.md ' + ref),
            level_note=note,
            technique=TECH))
    man = dict(
        version=1,
        setup_cmd='bin/setup',
        hooks=dict(guard='DWGREP_VERIF', enable='bin/check passes -DDWGREP_VERIF when lowering /repo sources to IR and when building the native replay objects',
                   baseline_off_cmd='cmake --build /repo/_build -- -k 0 ; ctest --test-dir /repo/_build -j8 --timeout 900',
                   source_commits=hooks_commits, add_only=True),
        engines=[dict(name='ll2c+cbmc', path='engine/', serves_properties=sorted(CLAIMED),
                      kind_free_text='clang-14 IR -> C translator (engine/ll2c.py) + CBMC 6.11 driver (engine/vpcheck.py) + C models of the C++ runtime (stubs/)')],
        checks=checks,
        not_applicable=[dict(property_id=p, reason=NA[p]) for p in ids if p not in CLAIMED],
        notes='No source hooks were needed so far: everything is reached through IR-level linkage and function replacement. Repairs of genuine defects are the fix: commits listed in known-findings.txt.')
    json.dump(man, open(os.path.join(V, 'MANIFEST.json'), 'w'), indent=1)
    print('claimed', sorted(CLAIMED), 'n/a', [p for p in ids if p not in CLAIMED])

if __name__ == '__main__':
    main()
