#!/usr/bin/env python3
"""Driver library: real sources -> IR -> C -> CBMC; witness/violation replay against
the natively compiled real code; evidence; known findings.  See DESIGN.md 2-4."""
import os, sys, re, json, time, subprocess, shutil, hashlib, tempfile, signal, resource
from concurrent.futures import ThreadPoolExecutor

VERIF = os.path.dirname(os.path.dirname(os.path.abspath(__file__)))
REPO = os.environ.get('VP_REPO', '/repo')
ENGINE = os.path.join(VERIF, 'engine')
STUBS = os.path.join(VERIF, 'stubs')
HARNESS = os.path.join(VERIF, 'harness')

def log(*a):
    print(*a, flush=True)

def sh(cmd, timeout=None, cwd=None, env=None, inp=None, memlimit_gb=None):
    """run, return (rc, stdout, stderr, wall, maxrss_kb); rc=-9 on timeout"""
    t0 = time.time()
    def pre():
        os.setsid()
        if memlimit_gb:
            b = int(memlimit_gb * (1 << 30))
            resource.setrlimit(resource.RLIMIT_AS, (b, b))
    e = dict(os.environ)
    if env:
        e.update(env)
    p = subprocess.Popen(['/usr/bin/time', '-f', 'VPRSS %M', '--'] + cmd, stdout=subprocess.PIPE, stderr=subprocess.PIPE,
                         stdin=subprocess.PIPE if inp is not None else subprocess.DEVNULL,
                         cwd=cwd, env=e, preexec_fn=pre)
    try:
        out, err = p.communicate(inp, timeout=timeout)
        rc = p.returncode
    except subprocess.TimeoutExpired:
        try:
            os.killpg(p.pid, signal.SIGKILL)
        except Exception:
            pass
        out, err = p.communicate()
        rc = -9
    out = out.decode('utf-8', 'replace')
    err = err.decode('utf-8', 'replace')
    rss = 0
    m = re.search(r'VPRSS (\d+)', err)
    if m:
        rss = int(m.group(1))
        err = re.sub(r'VPRSS \d+\n?', '', err)
    return rc, out, err, time.time() - t0, rss

class Inconclusive(Exception):
    pass

# every TU of the two libraries (native replay builds link the whole thing)
ALL_CORE = ['bindings.cc', 'build.cc', 'builtin-closure.cc', 'builtin-cmp.cc', 'builtin-cst.cc', 'builtin-shf.cc', 'builtin.cc',
            'constant.cc', 'docstring.cc', 'init.cc', 'int.cc', 'layout.cc', 'op.cc', 'overload.cc', 'pred_result.cc', 'scon.cc',
            'selector.cc', 'stack.cc', 'tree.cc', 'tree_cr.cc', 'value-closure.cc', 'value-cst.cc', 'value-seq.cc',
            'value-str.cc', 'value.cc', 'strip.cc', 'libzwerg.cc', '@gen/parser.cc', '@gen/lexer.cc']
ALL_DW = ['atval.cc', 'cache.cc', 'coverage.cc', 'dwcst.cc', 'dwfl_context.cc', 'dwit.cc', 'dwmods.cc', 'libzwerg-dw.cc',
          'value-aset.cc', 'builtin-aset.cc', 'value-dw.cc', 'builtin-dw.cc', 'builtin-dw-abbrev.cc', 'builtin-dw-voc.cc',
          'value-symbol.cc', 'builtin-symbol.cc']
ALL_LIBS = ('-ldw', '-lelf', '-ldl')

_hd = None
def headers_digest():
    """digest of every header that a native object may depend on (repo working tree + harness dir)"""
    global _hd
    if _hd is None:
        h = hashlib.sha1()
        for d in (os.path.join(REPO, 'libzwerg'), os.path.join(REPO, 'extern'), os.path.join(REPO, 'dwgrep'), HARNESS, REPO):
            if not os.path.isdir(d):
                continue
            for fn in sorted(os.listdir(d)):
                if fn.endswith(('.hh', '.h', '.hpp', '.awk', '.in', '.cmake', '.yy', '.ll')):
                    h.update(fn.encode())
                    h.update(open(os.path.join(d, fn), 'rb').read())
        _hd = h.hexdigest()
    return _hd

def cache_dir():
    d = os.environ.get('VP_CACHE', '/var/tmp/vp-objcache')
    os.makedirs(d, exist_ok=True)
    return d

# ------------------------------------------------------------------------- build flags
def repo_flags():
    """compile flags of the real build (from build.ninja when present)"""
    inc = ['-I%s/libzwerg' % REPO, '-I%s' % REPO]
    defs = ['-DNDEBUG']
    bn = os.path.join(REPO, '_build', 'build.ninja')
    std = '-std=c++14'
    if os.path.exists(bn):
        txt = open(bn).read()
        m = re.search(r'FLAGS = (.*)', txt)
        if m:
            for tok in m.group(1).split():
                if tok.startswith('-std='):
                    std = tok
                if tok.startswith('-D') and tok not in defs:
                    defs.append(tok)
    return std, defs, inc

class Ctx:
    def __init__(self, prop, tier, seed=0):
        self.prop = prop
        self.tier = tier
        self.seed = seed
        base = os.environ.get('VP_SCRATCH_BASE', '/var/tmp')
        self.scratch = tempfile.mkdtemp(prefix='vp-%s-' % prop, dir=base)
        self.gen = os.path.join(self.scratch, 'gen')
        os.makedirs(os.path.join(self.gen, 'libzwerg'))
        self.t0 = time.time()
        self.obligations = []      # list of dict
        self.functions_encoded = set()
        self.stubs_used = set()
        self.assumptions = []
        self.bounds = {}
        self.solver_time = 0.0
        self.queries = 0
        self.traces_validated = 0
        self.violations = []
        self.known = []
        self.inconclusive = []
        self.samples = []
        self.keep = bool(os.environ.get('VP_KEEP'))
        self._gen_done = False
        self._native_objs = {}

    def cleanup(self):
        if not self.keep:
            shutil.rmtree(self.scratch, ignore_errors=True)
        else:
            log("scratch kept:", self.scratch)

    # ---- generated sources of the repository (version.h, known-dwarf.h, lexer, parser)
    def gen_sources(self, need_parser=False):
        if self._gen_done and (not need_parser or self._gen_done == 'parser'):
            return
        g = self.gen
        vh = os.path.join(g, 'version.h')
        if not os.path.exists(vh):
            src = open(os.path.join(REPO, 'version.h.in')).read()
            ver = {}
            for l in open(os.path.join(REPO, 'VERSION.cmake')):
                m = re.match(r'\s*set\s*\(\s*(\w+)\s+"?([^")]*)"?\s*\)', l)
                if m:
                    ver[m.group(1)] = m.group(2)
            src = re.sub(r'@(\w+)@', lambda m: ver.get(m.group(1), '0'), src)
            src = re.sub(r'#cmakedefine\s+(\w+).*', '', src)
            open(vh, 'w').write(src)
        kd = os.path.join(g, 'libzwerg', 'known-dwarf.h')
        if not os.path.exists(kd):
            rc, out, err, _, _ = sh(['gawk', '-f', os.path.join(REPO, 'known-dwarf.awk'), '/usr/include/dwarf.h'])
            if rc != 0:
                raise Inconclusive('known-dwarf.awk failed: ' + err[:200])
            open(kd, 'w').write(out)
            rc, out, err, _, _ = sh(['gawk', '-f', os.path.join(REPO, 'known-elf.awk'), '/usr/include/elf.h'])
            if rc != 0:
                raise Inconclusive('known-elf.awk failed: ' + err[:200])
            open(os.path.join(g, 'libzwerg', 'known-elf.h'), 'w').write(out)
        if need_parser:
            lz = os.path.join(g, 'libzwerg')
            rc, out, err, _, _ = sh(['flex', '--outfile=' + os.path.join(lz, 'lexer.cc'), '--header-file=' + os.path.join(lz, 'lexer.hh'),
                                     os.path.join(REPO, 'libzwerg', 'lexer.ll')])
            if rc != 0:
                raise Inconclusive('flex failed: ' + err[:300])
            rc, out, err, _, _ = sh(['bison', '--defines=' + os.path.join(lz, 'parser.hh'), '--output=' + os.path.join(lz, 'parser.cc'),
                                     os.path.join(REPO, 'libzwerg', 'parser.yy')])
            if rc != 0:
                raise Inconclusive('bison failed: ' + err[:300])
            self._gen_done = 'parser'
        else:
            self._gen_done = True

    def cxxflags(self, extra=()):
        std, defs, inc = repo_flags()
        return [std] + defs + ['-DDWGREP_VERIF', '-fPIC'] + inc + ['-I' + self.gen, '-I' + os.path.join(self.gen, 'libzwerg'),
                                                                    '-I' + HARNESS] + list(extra)

    def src_path(self, tu):
        """tu: 'int.cc' (repo libzwerg), 'dwgrep/dwgrep.cc', '@h/c08.cc' (harness), '@gen/parser.cc'"""
        if tu.startswith('@h/'):
            return os.path.join(HARNESS, tu[3:])
        if tu.startswith('@gen/'):
            return os.path.join(self.gen, 'libzwerg', tu[5:])
        if '/' in tu:
            return os.path.join(REPO, tu)
        return os.path.join(REPO, 'libzwerg', tu)

    # ---- IR
    def build_ir(self, name, tus, entries, defs=(), keep=(), opt='-O1', inline_all_but=None, fno_access=True):
        """compile tus with clang, link, internalize to entries(+keep) and dce.
        returns path of the linked .ll"""
        self.gen_sources(need_parser=any(t.startswith('@gen/') for t in tus))
        d = os.path.join(self.scratch, name)
        os.makedirs(d, exist_ok=True)
        bcs = []
        def one(tu):
            src = self.src_path(tu)
            out = os.path.join(d, re.sub(r'[^A-Za-z0-9]', '_', tu) + '.bc')
            cmd = ['clang++-14'] + self.cxxflags(['-D' + x for x in defs]) + [
                opt, '-mllvm', '-simplifycfg-sink-common=false', '-mllvm', '-simplifycfg-hoist-common=false',
                '-fno-inline', '-fno-vectorize', '-fno-slp-vectorize', '-fno-unroll-loops',
                ('-fno-access-control' if fno_access else '-fno-strict-aliasing'),
                '-fno-stack-protector', '-fno-use-cxa-atexit' if False else '-fuse-cxa-atexit',
                '-Wno-everything', '-c', '-emit-llvm', src, '-o', out]
            rc, o, e, w, _ = sh(cmd, timeout=600)
            if rc != 0:
                raise Inconclusive('clang failed on %s: %s' % (tu, e[-1500:]))
            return out
        with ThreadPoolExecutor(8) as ex:
            bcs = list(ex.map(one, tus))
        linked = os.path.join(d, 'linked.bc')
        rc, o, e, _, _ = sh(['llvm-link-14'] + bcs + ['-o', linked])
        if rc != 0:
            raise Inconclusive('llvm-link failed: ' + e[-800:])
        if entries is None:
            return linked
        return self.reduce_ir(linked, entries, keep)

    def inline_ir(self, ll, keep_rx=(), threshold=400):
        """second optimisation round on a reduced module: drop clang's -fno-inline `noinline'
        markers (except on functions that are overridden / trapped / emptied by name) and run the
        inliner plus clean-up.  Null checks and size computations then sit next to the branches
        that use them, which CBMC's symbolic execution needs in order to keep pointers concrete."""
        txt = open(ll).read()
        groups = {}
        for m in re.finditer(r'^attributes (#\d+) = \{(.*)\}$', txt, re.M):
            groups[m.group(1)] = m.group(2)
        maxn = max([int(g[1:]) for g in groups] + [0])
        newg = {}
        def sub(g):
            if g not in groups or not re.search(r'\b(noinline|optnone)\b', groups[g]):
                return g
            if g not in newg:
                nonlocal maxn
                maxn += 1
                newg[g] = '#%d' % maxn
            return newg[g]
        rxs = [re.compile(x) for x in keep_rx]
        out = []
        for l in txt.split('\n'):
            if l.startswith('define '):
                m = re.search(r'@("(?:[^"\\]|\\.)*"|[-a-zA-Z$._0-9]+)\(', l)
                name = m.group(1).strip('"') if m else ''
                if not any(r.search(name) for r in rxs):
                    # attribute group refs after the parameter list
                    head, sep, tail = l.rpartition(')')
                    tail = re.sub(r'#\d+', lambda mm: sub(mm.group()), tail)
                    l = head + sep + tail
            out.append(l)
        for g, ng in newg.items():
            body = re.sub(r'\b(noinline|optnone)\b', '', groups[g])
            out.append('attributes %s = {%s}' % (ng, body))
        ll2 = ll[:-3] + '.ni.ll'
        open(ll2, 'w').write('\n'.join(out))
        ll3 = ll[:-3] + '.inl.ll'
        rc, o, e, _, _ = sh(['opt-14', '-passes=cgscc(inline),function(sroa,early-cse,simplifycfg,instsimplify,adce),globaldce',
                             '-inline-threshold=%d' % threshold, '-simplifycfg-sink-common=false', '-simplifycfg-hoist-common=false',
                             '-S', ll2, '-o', ll3], timeout=600)
        if rc != 0:
            raise Inconclusive('opt (inline round) failed: ' + e[-800:])
        return ll3

    def reduce_ir(self, linked, entries, keep=(), tag='reduced'):
        d = os.path.dirname(linked)
        api = ','.join(list(entries) + list(keep))
        red = os.path.join(d, tag + '.ll')
        rc, o, e, _, _ = sh(['opt-14', '-enable-new-pm=0', '-internalize', '-internalize-public-api-list=' + api,
                             '-globaldce', '-S', linked, '-o', red])
        if rc != 0:
            raise Inconclusive('opt failed: ' + e[-800:])
        return red

    # ---- C
    def to_c(self, ll, name, overrides=(), stubs=('cxxrt.c', 'vp_cbmc.c'), traps=(), empties=(), cha_loose=False):
        d = os.path.dirname(ll)
        out = os.path.join(d, name + '.c')
        info = os.path.join(d, name + '.info.json')
        cmd = [sys.executable, os.path.join(ENGINE, 'll2c.py'), ll, '-o', out, '--info', info]
        for o in overrides:
            cmd += ['--override', o]
        cands = []
        for s in stubs:
            for l in open(os.path.join(STUBS, s)):
                m = re.search(r'VP_CANDIDATE\s+(\w+)\s+(\S+)\((.*?)\)', l)
                if m:
                    cands.append('%s:%s:%s' % (m.group(1), m.group(2), m.group(3).replace(' ', '')))
        for cnd in cands:
            cmd += ['--candidate', cnd]
        if cha_loose:
            cmd.append('--cha-loose')
        for t in traps:
            cmd += ['--trap', t]
        for t in empties:
            cmd += ['--empty', t]
        rc, o, e, _, _ = sh(cmd, timeout=600)
        if rc != 0:
            raise Inconclusive('ll2c: ' + e[-1500:])
        inf = json.load(open(info))
        return out, inf

    # ---- CBMC
    def cbmc(self, cfile, entry, unwind, stubs=('cxxrt.c', 'vp_cbmc.c'), unwindset=None, timeout=600, extra=(),
             memlimit_gb=24, backend=None, trace=True, object_bits=None, harness_unwind=None,
             harness_loop_rx=r'^_ZL|__bodyv|__run|S_map|S_pad|U_src|P_sym|reslog|^c\d\d_', cdefs=()):
        cmd = ['cbmc', cfile] + [os.path.join(STUBS, s) for s in stubs] + ['-I', ENGINE] + ['-D' + x for x in cdefs] + ['--function', entry,
               '--unwind', str(unwind), '--unwinding-assertions', '--no-malloc-may-fail',
               '--no-signed-overflow-check', '--no-undefined-shift-check', '--no-div-by-zero-check',
               '--pointer-check', '--bounds-check', '--pointer-primitive-check',
               '--drop-unused-functions', '--slice-formula', '--max-field-sensitivity-array-size', '2048', '--json-ui']
        if trace:
            cmd.append('--trace')
        us = {}
        if harness_unwind:
            # harness-side loops (static functions of the harness TU, protocol stubs) get their own bound
            rc0, out0, err0, _, _ = sh(['cbmc', cfile] + [os.path.join(STUBS, s) for s in stubs] + ['-I', ENGINE, '--function', entry,
                                       '--drop-unused-functions', '--show-loops'], timeout=300)
            for m in re.finditer(r'^Loop (\S+):', out0, re.M):
                if re.search(harness_loop_rx, m.group(1)):
                    us[m.group(1)] = harness_unwind
        us.update({'vp_memset.0': 600, 'vp_memcpy.0': 130, 'vp_memmove.0': 130, 'vp_memmove.1': 130, 'vp_dup.0': 66,
              'vp_strlen.0': 66, 'vp_libc_memcmp.0': 80, 'vp_libc_memchr.0': 66,
                   'vp_obj_rank.0': 30, 'vp_libc_strcmp.0': 260, 'vp_mul64x64.0': 12, 'vp_divrem64.0': 12,
                   'vp_vec_c_realloc_insert.0': 74, 'vp_vec_c_realloc_insert.1': 74, 'vp_vec_cr_realloc_insert.0': 10, 'vp_vec_cr_realloc_insert.1': 10,
                   'vp_string_empty.0': 130, 'vp_cap_puts.0': 110})
        us.update(unwindset or {})
        cmd += ['--unwindset', ','.join('%s:%d' % kv for kv in us.items())]
        if object_bits:
            cmd += ['--object-bits', str(object_bits)]
        if backend == 'cadical':
            cmd += ['--sat-solver', 'cadical']
        elif backend == 'kissat':
            cmd += ['--external-sat-solver', 'kissat']
        elif backend == 'z3':
            cmd += ['--z3']
        elif backend == 'cvc5':
            cmd += ['--cvc5']
        cmd += list(extra)
        rc, out, err, wall, rss = sh(cmd, timeout=timeout, memlimit_gb=memlimit_gb)
        self.queries += 1
        self.solver_time += wall
        res = dict(entry=entry, rc=rc, wall=round(wall, 2), rss_mb=rss // 1024, props=[], raw_err=err[-2000:], cmd=' '.join(cmd))
        if rc == -9:
            res['status'] = 'TIMEOUT'
            return res
        try:
            js = json.loads(out)
        except Exception:
            res['status'] = 'ERROR'
            res['raw_out'] = out[-3000:]
            return res
        msgs = []
        for item in js:
            if 'result' in item:
                for p in item['result']:
                    res['props'].append(p)
            if 'messageText' in item:
                msgs.append(item['messageText'])
            if 'cProverStatus' in item:
                res['cprover'] = item['cProverStatus']
        res['messages'] = msgs
        nobody = [m for m in msgs if 'no body for' in m]
        res['no_body'] = sorted(set(re.findall(r"no body for (?:function|callee) '?([A-Za-z0-9_$.]+)", '\n'.join(nobody))))
        if not res['props'] and 'cprover' not in res:
            res['status'] = 'ERROR'
            res['raw_out'] = '\n'.join(msgs)[-3000:]
            return res
        res['status'] = 'OK'
        return res

    # ---- native real build (replay)
    def native_exe(self, name, tus, harness, defs=(), libs=('-ldw', '-lelf', '-ldl'), fno_access=True):
        """g++ build of harness + real repo TUs + vp_native.c"""
        self.gen_sources(need_parser=any(t.startswith('@gen/') for t in tus))
        d = os.path.join(self.scratch, name + '-native')
        os.makedirs(d, exist_ok=True)
        objs = []
        def one(tu):
            src = self.src_path(tu)
            key = (tu, tuple(defs))
            if key in self._native_objs:
                return self._native_objs[key]
            out = os.path.join(d, re.sub(r'[^A-Za-z0-9]', '_', tu) + '.o')
            cmd = ['g++'] + self.cxxflags(['-D' + x for x in defs]) + ['-O1', '-g', ('-fno-access-control' if fno_access or not tu.startswith('@h/') else '-fno-strict-aliasing'), '-fsanitize=address,undefined', '-fno-sanitize-recover=undefined', '-w', '-c', src, '-o', out]
            # content-addressed object cache (sources + every header of the repo and harness dir + flags)
            ck = None
            if not tu.startswith('@gen/'):
                ck = os.path.join(cache_dir(), hashlib.sha1((open(src, 'rb').read().decode('latin-1') + headers_digest() + ' '.join(cmd[:-3])).encode('latin-1')).hexdigest() + '.o')
                if os.path.exists(ck):
                    shutil.copy(ck, out)
                    self._native_objs[key] = out
                    return out
            rc, o, e, w, _ = sh(cmd, timeout=900)
            if rc != 0:
                raise Inconclusive('g++ failed on %s: %s' % (tu, e[-1500:]))
            if ck:
                try:
                    tmpf = ck + '.%d.tmp' % os.getpid()
                    shutil.copy(out, tmpf)
                    os.replace(tmpf, ck)
                except Exception:
                    pass
            self._native_objs[key] = out
            return out
        with ThreadPoolExecutor(8) as ex:
            objs = list(ex.map(one, list(tus) + [harness]))
        rt = os.path.join(d, 'vp_native.o')
        rc, o, e, _, _ = sh(['gcc', '-O1', '-g', '-c', os.path.join(STUBS, 'vp_native.c'), '-o', rt])
        if rc != 0:
            raise Inconclusive('gcc vp_native: ' + e[-500:])
        exe = os.path.join(d, 'replay')
        rc, o, e, _, _ = sh(['g++', '-rdynamic', '-fsanitize=address,undefined', '-o', exe] + objs + [rt] + list(libs))
        if rc != 0:
            raise Inconclusive('link native: ' + e[-1500:])
        return exe

    def run_native(self, exe, entry, values, timeout=60):
        vf = os.path.join(self.scratch, 'replay-%s.txt' % hashlib.md5((entry + repr(values)).encode()).hexdigest()[:8])
        open(vf, 'w').write('\n'.join(str(v) for v in values) + '\n')
        rc, out, err, w, _ = sh([exe, entry], timeout=timeout, env={'VP_REPLAY': vf, 'ASAN_OPTIONS': 'detect_leaks=0'})
        return rc, out, err

# ------------------------------------------------------------------------- traces
def nondet_values(prop):
    """nondet value list (call order) from a CBMC json trace"""
    vals = []
    for st in prop.get('trace', []):
        if st.get('stepType') == 'assignment' and st.get('lhs') == 'vp_nd_value':
            v = st.get('value', {})
            if 'binary' in v:
                vals.append(int(v['binary'], 2))
            elif 'data' in v:
                d = v['data']
                try:
                    vals.append(int(d) & ((1 << 64) - 1))
                except ValueError:
                    vals.append(1 if d.lower() == 'true' else 0)
    return vals

def classify(p):
    d = p.get('description', '')
    if d.startswith('VP_WITNESS'):
        return 'witness'
    if d.startswith('VP_COVER'):
        return 'cover'
    if d.startswith('P: '):
        return 'property'
    if d.startswith('UB:'):
        return 'ub'
    if 'unwinding assertion' in d:
        return 'unwind'
    if 'recursion unwinding' in d:
        return 'unwind'
    return 'safety'

# ------------------------------------------------------------------------- known findings
def load_known(prop):
    """lines: finding: property=ID harness=H assertion=<substring> [note=...] text"""
    out = []
    p = os.path.join(VERIF, 'known-findings.txt')
    if not os.path.exists(p):
        return out
    for l in open(p):
        l = l.strip()
        if not l.startswith('finding:'):
            continue
        kv = dict(re.findall(r'(\w+)=("[^"]*"|\S+)', l))
        kv = {k: v.strip('"') for k, v in kv.items()}
        if kv.get('property') != prop:
            continue
        kv['text'] = l
        out.append(kv)
    return out

# ------------------------------------------------------------------------- evidence
def write_evidence(ctx, level_text=''):
    obs = ctx.obligations
    n_ob = len(obs)
    n_dis = sum(1 for o in obs if o['verdict'] == 'discharged')
    ev = dict(
        property_id=ctx.prop, tier=ctx.tier, seed=ctx.seed, level='model_checking',
        coverage=dict(
            evaluations=ctx.queries,
            distinct_nontrivial=sum(o.get('n_props', 0) for o in obs if o['verdict'] == 'discharged'),
            rule='one evaluation = one CBMC solver run over a harness (all symbolic inputs within the stated bounds); '
                 'distinct_nontrivial = number of distinct assertions (property + memory-safety + UB + unwinding) proved '
                 'in harnesses whose reachability witness was confirmed (vacuity guard) and replayed on the native build',
            samples=ctx.samples[:12] or [dict(note='no obligation ran')],
            obligations=n_ob, discharged=n_dis,
            inconclusive=ctx.inconclusive,
            traces_validated_against_impl=ctx.traces_validated,
            functions_encoded=sorted(ctx.functions_encoded),
            stubs=sorted(ctx.stubs_used),
            bounds=ctx.bounds,
            solver_time_s=round(ctx.solver_time, 1),
            known_findings=ctx.known,
            exhaustive=False,
            explanation=level_text,
        ),
        assumptions=ctx.assumptions,
        wall_s=round(time.time() - ctx.t0, 1),
        violations=len(ctx.violations),
    )
    os.makedirs(os.path.join(VERIF, 'evidence'), exist_ok=True)
    json.dump(ev, open(os.path.join(VERIF, 'evidence', ctx.prop + os.environ.get('VERIF_EVIDENCE_SUFFIX', '') + '.json'), 'w'), indent=1)

def demangle(names):
    if not names:
        return []
    rc, out, err, _, _ = sh(['c++filt'], inp='\n'.join(names).encode())
    return out.split('\n')[:len(names)]

# ------------------------------------------------------------------------- modules / harness orchestration
class Module:
    """one lowered module: repo TUs + harness TU -> C; several entries are checked on it"""
    def __init__(self, ctx, name, tus, harness, entries, stubs=('cxxrt.c', 'vp_cbmc.c', 'ostream_null.c'),
                 overrides=(), defs=(), native_tus=None, native_libs=('-ldl',), support=('@h/support_std.cc',),
                 native_extra=(), keep=(), traps=(), empties=(), inline=True, fno_access=True):
        self.inline = inline
        self.fno_access = fno_access
        self.traps = tuple(traps)
        self.empties = tuple(empties)
        self.ctx = ctx
        self.name = name
        self.tus = list(tus)
        self.harness = harness
        self.entries = list(entries)
        self.stubs = tuple(stubs)
        self.overrides = tuple(overrides)
        self.defs = tuple(defs)
        self.native_tus = list(native_tus) if native_tus is not None else list(tus)
        self.native_libs = tuple(native_libs)
        self.native_extra = tuple(native_extra)
        self.support = tuple(support)
        self.keep = tuple(keep)
        self.cfile = None
        self.cfiles = {}
        self.linked = None
        self.info = None
        self._exe = None
        self._genexe = None
        self._genexes = {}
        self._entry_locks = {}
        self.kf_defs = []
        import threading
        self._lock = threading.RLock()

    def lower(self):
        with self._lock:
            self._lower()

    def native(self):
        with self._lock:
            return self._native()

    def _lower(self):
        """compile + link once; the per-entry reduction/translation happens in cfile_for"""
        if self.linked:
            return
        ctx = self.ctx
        self.linked = ctx.build_ir(self.name, self.tus + ['@h/' + self.harness] + list(self.support), None,
                                   defs=tuple(self.defs) + tuple(self.kf_defs), keep=self.keep, fno_access=self.fno_access)

    def cfile_for(self, entry):
        """internalize to ONE entry, dead-code-eliminate, translate: vtables (hence indirect-call
        candidates) of classes the entry never constructs disappear"""
        with self._lock:
            self._lower()
            if entry in self.cfiles:
                return self.cfiles[entry]
            lk = self._entry_locks.setdefault(entry, __import__('threading').Lock())
        with lk:
            return self._cfile_for_locked(entry)

    def _cfile_for_locked(self, entry):
        with self._lock:
            if entry in self.cfiles:
                return self.cfiles[entry]
        ctx = self.ctx
        ll = ctx.reduce_ir(self.linked, [entry], self.keep, tag='red-' + entry)
        if self.inline:
            ll = ctx.inline_ir(ll, keep_rx=list(self.traps) + list(self.empties) + ['^' + re.escape(o) + '$' for o in self.overrides]
                               + ['^' + re.escape(entry) + '$', '^vp_'])
        cfile, info = ctx.to_c(ll, entry, overrides=self.overrides, stubs=self.stubs, traps=self.traps, empties=self.empties,
                                cha_loose=getattr(self, 'cha_loose', False))
        with self._lock:
            self.cfiles[entry] = cfile
            self.info = info
            self._account(info)
        return cfile

    def _account(self, info):
        ctx = self.ctx
        self.cfile = True
        enc = [f for f in info['functions']]
        dm = demangle(enc)
        for f in dm:
            if f and not f.startswith('std::') and not f.startswith('__gnu_cxx') and not f.startswith('void std::') \
               and 'std::' not in f.split('(')[0]:
                ctx.functions_encoded.add(f)
        for s in self.stubs:
            ctx.stubs_used.add(s)

    def _native(self):
        if self._exe is None:
            ctx = self.ctx
            self._exe = ctx.native_exe(self.name, self.native_tus + list(self.native_extra), '@h/' + self.harness,
                                       defs=tuple(self.defs) + tuple(self.kf_defs), libs=self.native_libs, fno_access=self.fno_access)
        return self._exe

    def genc_native_for(self, entry):
        """gcc build of the generated C + stubs (translation validation)"""
        cfile = self.cfile_for(entry)
        with self._lock:
            if entry in self._genexes:
                return self._genexes[entry]
        if True:
            d = os.path.dirname(cfile)
            exe = os.path.join(d, entry + '-genc')
            cmd = ['gcc', '-O1', '-w', '-fno-strict-aliasing', '-DVP_GENC', '-I', ENGINE, cfile] + \
                  [os.path.join(STUBS, s) for s in self.stubs] + [os.path.join(STUBS, 'vp_native.c'), '-rdynamic', '-ldl', '-o', exe]
            rc, o, e, _, _ = sh(cmd, timeout=600)
            if rc != 0:
                raise Inconclusive('gcc of generated C failed: ' + e[-1500:])
            with self._lock:
                self._genexes[entry] = exe
        return exe


def run_entry(ctx, mod, entry, unwind, timeout=600, backend=None, unwindset=None, object_bits=12, note='',
              bounds=None, tv_seeds=3, expect_fail=None, memlimit_gb=24, extra=(), harness_unwind=None, cdefs=(), label=None):
    """check one harness entry; fills ctx.obligations etc.  Returns verdict string."""
    ob = dict(harness=label or entry, module=mod.name, unwind=unwind, backend=backend or 'cbmc-default-sat', bounds=bounds or note)
    try:
        cfile = mod.cfile_for(entry)
    except Inconclusive as e:
        ob.update(verdict='inconclusive', reason=str(e)[:600])
        ctx.obligations.append(ob)
        ctx.inconclusive.append(dict(harness=entry, reason=ob['reason']))
        log('INCONCLUSIVE property=%s harness=%s %s' % (ctx.prop, entry, ob['reason'][:300]))
        return 'inconclusive'
    res = ctx.cbmc(cfile, entry, unwind, stubs=mod.stubs, unwindset=unwindset, timeout=timeout, backend=backend,
                   object_bits=object_bits, memlimit_gb=memlimit_gb, extra=extra, harness_unwind=harness_unwind, cdefs=cdefs)
    ob.update(seconds=res['wall'], rss_mb=res['rss_mb'])
    def inconc(reason):
        ob.update(verdict='inconclusive', reason=reason[:600])
        ctx.obligations.append(ob)
        ctx.inconclusive.append(dict(harness=entry, reason=reason[:600]))
        log('INCONCLUSIVE property=%s harness=%s %s' % (ctx.prop, entry, reason[:300]))
        return 'inconclusive'
    if res['status'] == 'TIMEOUT':
        return inconc('solver timeout after %ds' % timeout)
    if res['status'] != 'OK':
        return inconc('cbmc error: ' + (res.get('raw_out', '') + res.get('raw_err', ''))[-500:])
    allowed_nobody = {'nondet_u64', 'nondet_u32', 'nondet_u16', 'nondet_u8', 'nondet_b'}
    nb = [x for x in res['no_body'] if x not in allowed_nobody]
    if nb:
        return inconc('functions without body (no model): ' + ', '.join(nb[:12]))
    props = res['props']
    by = {}
    for p in props:
        by.setdefault(classify(p), []).append(p)
    wit = by.get('witness', [])
    failed = [p for p in props if p['status'] == 'FAILURE' and classify(p) not in ('witness', 'cover')]
    undecided = [p for p in props if p['status'] not in ('SUCCESS', 'FAILURE')]
    ob['n_props'] = sum(1 for p in props if p['status'] == 'SUCCESS' and classify(p) not in ('witness', 'cover'))
    ob['n_property_asserts'] = len(by.get('property', []))
    ob['covers'] = {p['description']: p['status'] for p in by.get('cover', [])}
    # ---- vacuity
    wit_ok = bool(wit) and all(p['status'] == 'FAILURE' for p in wit)
    witvals = None
    if wit_ok:
        witvals = nondet_values(wit[0])
    # ---- failures first
    if failed:
        verdicts = []
        for p in failed:
            kind = classify(p)
            vals = nondet_values(p)
            desc = p['description']
            if kind in ('unwind', 'safety', 'ub'):
                desc = '%s [%s]' % (desc, p.get('property', ''))
            rp = save_replay(ctx, entry, desc, vals, mod)
            try:
                exe = mod.native()
                rc, out, err = ctx.run_native(exe, entry, vals, timeout=30 if kind != 'unwind' else 20)
            except Inconclusive as e:
                verdicts.append(('inconclusive', desc, 'native build failed: ' + str(e)[:300], rp))
                continue
            confirmed = False
            if 'stream model expectation' in desc:
                # the stream model only learns that the text differs from what the harness announced; natively the
                # harness' own comparison of the real text has to fail on the same inputs
                confirmed = 'VP_ASSERT_FAIL' in out
            elif kind == 'property':
                confirmed = ('VP_ASSERT_FAIL ' + desc) in out
            elif kind == 'unwind':
                confirmed = (rc == -9)
            elif kind in ('safety', 'ub'):
                confirmed = ('AddressSanitizer' in err or 'runtime error:' in err or rc in (-11, -6, 139, 134))
            if confirmed:
                verdicts.append(('violation', desc, 'replayed natively: ' + (out.strip().split('\n')[-1] if out.strip() else 'rc=%d' % rc), rp))
            else:
                verdicts.append(('unconfirmed', desc, 'counterexample did not reproduce natively (rc=%d, out=%s)' % (rc, out.strip()[-200:]), rp))
        viols = [v for v in verdicts if v[0] == 'violation']
        if viols:
            ob.update(verdict='violation', failures=[dict(assertion=v[1], detail=v[2], replay=v[3]) for v in verdicts])
            ctx.obligations.append(ob)
            for v in viols:
                ctx.violations.append(dict(harness=entry, assertion=v[1], replay=v[3], detail=v[2]))
                log('VIOLATION property=%s replay=%s' % (ctx.prop, v[3]))
                log('  harness=%s assertion="%s" %s' % (entry, v[1], v[2]))
            return 'violation'
        reason = '; '.join('%s: %s' % (v[1], v[2]) for v in verdicts)
        ob['unconfirmed'] = [dict(assertion=v[1], detail=v[2], replay=v[3]) for v in verdicts]
        return inconc('counterexample(s) not confirmed by native replay -> encoding artefact or unconfirmable UB: ' + reason)
    if undecided:
        return inconc('undecided properties: ' + ', '.join(p['description'] for p in undecided[:5]))
    if not wit_ok:
        return inconc('vacuous: witness not reachable (assumptions unsatisfiable or end of harness unreachable)')
    # ---- witness replay on the native real build + translation validation
    try:
        exe = mod.native()
        rc, out, err = ctx.run_native(exe, entry, witvals)
        if rc != 0 or ('VP_WITNESS ' + entry) not in out:
            return inconc('witness trace does not replay on the native build (rc=%d out=%s err=%s)' % (rc, out.strip()[-200:], err.strip()[-200:]))
        ctx.traces_validated += 1
        tv = 0
        if tv_seeds:
            gexe = mod.genc_native_for(entry)
            import random
            rnd = random.Random(ctx.seed * 7919 + hash(entry) % 1000)
            for k in range(tv_seeds + 1):
                if k == 0:
                    env = None
                    rc1, out1, _ = ctx.run_native(exe, entry, witvals)
                    rc2, out2, _ = ctx.run_native(gexe, entry, witvals)
                else:
                    sd = str(rnd.randrange(1, 1 << 62))
                    rc1, out1, _, _, _ = sh([exe, entry], timeout=30, env={'VP_SEED': sd})
                    rc2, out2, _, _, _ = sh([gexe, entry], timeout=30, env={'VP_SEED': sd})
                if (rc1, out1) != (rc2, out2):
                    return inconc('translation validation: generated C and real code disagree (seed run %d): real rc=%d %s / genC rc=%d %s'
                                  % (k, rc1, out1.strip()[-150:], rc2, out2.strip()[-150:]))
                tv += 1
        ob['translation_validation_runs'] = tv
    except Inconclusive as e:
        return inconc('native replay build failed: ' + str(e)[:400])
    ob.update(verdict='discharged')
    ctx.obligations.append(ob)
    if len(ctx.samples) < 12:
        ctx.samples.append(dict(harness=entry, bounds=ob['bounds'], unwind=unwind, backend=ob['backend'], seconds=ob['seconds'],
                                rss_mb=ob['rss_mb'], assertions_proved=ob['n_props'],
                                property_assertions=[p['description'] for p in by.get('property', [])][:8],
                                witness_inputs=witvals[:16]))
    log('ok   %-28s %6.1fs %5dMB  %d assertions proved, witness replayed' % (label or entry, res['wall'], res['rss_mb'], ob['n_props']))
    return 'discharged'

def save_replay(ctx, entry, desc, vals, mod):
    os.makedirs(os.path.join(VERIF, 'replay'), exist_ok=True)
    h = hashlib.md5((entry + desc + repr(vals)).encode()).hexdigest()[:10]
    p = os.path.join(VERIF, 'replay', '%s-%s-%s.json' % (ctx.prop, entry, h))
    json.dump(dict(property=ctx.prop, harness=entry, module=mod.name, assertion=desc, nondet_values=vals,
                   how='bin/check %s --replay %s' % (ctx.prop, p)), open(p, 'w'), indent=1)
    return p

def run_parallel(jobs, workers=None):
    """jobs: list of zero-arg callables; runs them on a thread pool (each spawns cbmc)"""
    workers = workers or int(os.environ.get('VP_JOBS', '8'))
    with ThreadPoolExecutor(workers) as ex:
        futs = [ex.submit(j) for j in jobs]
        return [f.result() for f in futs]

def finish(ctx, level_text=''):
    for k in ctx.known:
        log('KNOWN-FINDING: property=%s %s' % (ctx.prop, re.sub(r'^property=\S+\s+', '', k)))
    write_evidence(ctx, level_text)
    n_ob = len(ctx.obligations)
    n_dis = sum(1 for o in ctx.obligations if o['verdict'] == 'discharged')
    log('SUMMARY property=%s tier=%s obligations=%d discharged=%d inconclusive=%d violations=%d known=%d wall=%.0fs' % (
        ctx.prop, ctx.tier, n_ob, n_dis, len(ctx.inconclusive), len(ctx.violations), len(ctx.known), time.time() - ctx.t0))
    ctx.cleanup()
    return 1 if ctx.violations else 0


def generic_replay(ctx, mods, js):
    """bin/check <ID> --replay file: run the recorded nondet values on the native real build"""
    mod = mods[js['module']]
    exe = mod.native()
    rc, out, err = ctx.run_native(exe, js['harness'], js['nondet_values'], timeout=60)
    log(out.strip())
    if err.strip():
        log(err.strip()[-2000:])
    bad = ('VP_ASSERT_FAIL' in out) or rc == -9 or 'AddressSanitizer' in err or 'runtime error:' in err
    if bad:
        log('VIOLATION property=%s replay=%s' % (ctx.prop, js.get('how', '').split()[-1] if js.get('how') else '?'))
        return 1
    log('replay: no violation (rc=%d)' % rc)
    return 0

def run_simple(ctx, mod, plan, **kw):
    """plan: list of (entry, unwind, timeout, bounds-text)"""
    jobs = []
    for (e, unwind, to, b) in plan:
        if getattr(ctx, 'only', None) and e not in ctx.only:
            continue
        jobs.append(lambda e=e, unwind=unwind, to=to, b=b: run_entry(ctx, mod, e, unwind, timeout=to, bounds=b, **kw))
    run_parallel(jobs)
