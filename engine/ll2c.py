#!/usr/bin/env python3
"""ll2c -- translate clang-14 textual LLVM IR (typed pointers, x86-64) into plain C
that CBMC's C front end accepts and that gcc can also compile (translation
validation / replay).

Supported subset: see DESIGN.md section 2.2.  Anything outside it raises Unsupported
and the calling check reports INCONCLUSIVE -- never success.

usage: ll2c.py in.ll -o out.c [--erase-sigs] [--override SYM ...] [--entries a,b]
"""
import re, sys, json, hashlib

class Unsupported(Exception):
    pass

# --------------------------------------------------------------------------- lexer
TOK = re.compile(r'''
    (?P<ws>\s+)
  | (?P<str>c"(?:[^"\\]|\\[0-9A-Fa-f]{2}|\\\\)*")
  | (?P<qid>[%@]"(?:[^"\\]|\\[0-9A-Fa-f]{2})*")
  | (?P<id>[%@][-a-zA-Z$._0-9]+)
  | (?P<comdat>\$"(?:[^"\\]|\\[0-9A-Fa-f]{2})*"|\$[-a-zA-Z$._0-9]+)
  | (?P<meta>![-a-zA-Z$._0-9]*|!\{[^}]*\}|!"[^"]*")
  | (?P<attr>\#[0-9]+)
  | (?P<hexfp>0x[KLMHR]?[0-9A-Fa-f]+)
  | (?P<fp>-?[0-9]+\.[0-9]*(?:e[-+]?[0-9]+)?)
  | (?P<int>-?[0-9]+)
  | (?P<dots>\.\.\.)
  | (?P<qstr>"(?:[^"\\]|\\.)*")
  | (?P<word>[a-zA-Z_][a-zA-Z0-9_.]*)
  | (?P<punct>[,()\[\]{}<>*=:|])
''', re.X)

def lex(s):
    out = []
    pos = 0
    n = len(s)
    while pos < n:
        m = TOK.match(s, pos)
        if not m:
            raise Unsupported("lex error at: " + s[pos:pos + 40])
        pos = m.end()
        k = m.lastgroup
        if k == 'ws':
            continue
        out.append((k, m.group()))
    return out

def unq(name):
    """%"foo bar" -> foo bar ; %foo -> foo (keeps sigil)"""
    sig = name[0]
    body = name[1:]
    if body.startswith('"'):
        body = body[1:-1]
        body = re.sub(r'\\([0-9A-Fa-f]{2})', lambda m: chr(int(m.group(1), 16)), body)
    return sig + body

PARAM_ATTRS = {
    'noundef', 'nonnull', 'noalias', 'nocapture', 'readonly', 'readnone', 'writeonly',
    'zeroext', 'signext', 'returned', 'immarg', 'nofree', 'inreg', 'nest', 'swiftself',
    'noreturn', 'nounwind', 'inalloca', 'swifterror', 'nobuiltin', 'builtin',
}
PARAM_ATTRS_ARG = {'align', 'dereferenceable', 'dereferenceable_or_null', 'sret', 'byval',
                   'byref', 'preallocated', 'elementtype', 'allocsize'}
LINKAGE_WORDS = {
    'private', 'internal', 'available_externally', 'linkonce', 'weak', 'common', 'appending',
    'extern_weak', 'linkonce_odr', 'weak_odr', 'external', 'dso_local', 'dso_preemptable',
    'default', 'hidden', 'protected', 'unnamed_addr', 'local_unnamed_addr', 'fastcc', 'ccc',
    'coldcc', 'tail', 'musttail', 'notail', 'thread_local', 'externally_initialized',
    'nsw', 'nuw', 'exact', 'inbounds', 'volatile', 'atomic', 'fast', 'nnan', 'ninf', 'nsz',
    'arcp', 'contract', 'afn', 'reassoc',
}

# --------------------------------------------------------------------------- types
# ('void',) ('int',N) ('fp',kind) ('ptr',T) ('arr',N,T) ('vec',N,T)
# ('struct',(T..),packed) ('named',name) ('func',ret,(params),vararg) ('opaque',)
VOID = ('void',)
def INT(n): return ('int', n)
def PTR(t): return ('ptr', t)
I8P = PTR(INT(8))

class P:
    """token stream parser"""
    def __init__(self, toks, mod):
        self.t = toks
        self.i = 0
        self.mod = mod
    def peek(self, k=0):
        j = self.i + k
        return self.t[j] if j < len(self.t) else ('eof', '')
    def next(self):
        x = self.peek()
        self.i += 1
        return x
    def accept(self, val):
        if self.peek()[1] == val and self.peek()[0] not in ('str', 'qstr'):
            self.i += 1
            return True
        return False
    def expect(self, val):
        if not self.accept(val):
            raise Unsupported("expected %r got %r in: %s" % (val, self.peek(), self.ctx()))
    def ctx(self):
        return ' '.join(t[1] for t in self.t[max(0, self.i - 8):self.i + 8])
    def eof(self):
        return self.i >= len(self.t)

    def skip_group(self):
        """skip a balanced ( ... )"""
        self.expect('(')
        d = 1
        while d:
            k, v = self.next()
            if k in ('str', 'qstr'):
                continue
            if v == '(':
                d += 1
            elif v == ')':
                d -= 1
            elif k == 'eof':
                raise Unsupported("unbalanced group")

    def skip_attrs(self):
        """skip parameter / return / linkage attribute words; returns dict of interesting ones"""
        got = {}
        while True:
            k, v = self.peek()
            if k == 'word' and v in PARAM_ATTRS:
                self.i += 1
                got[v] = True
            elif k == 'word' and v in LINKAGE_WORDS:
                self.i += 1
                got[v] = True
            elif k == 'word' and v in PARAM_ATTRS_ARG:
                self.i += 1
                if v == 'align' and self.peek()[0] == 'int':
                    got['align'] = int(self.next()[1])
                elif self.peek()[1] == '(':
                    if v in ('sret', 'byval'):
                        self.expect('(')
                        got[v] = self.type()
                        self.expect(')')
                    else:
                        self.skip_group()
            elif k == 'attr':
                self.i += 1
                got.setdefault('groups', []).append(v)
            elif k == 'word' and v == 'addrspace':
                self.i += 1
                self.skip_group()
            else:
                return got

    def is_type_start(self):
        k, v = self.peek()
        if k == 'word':
            return (re.fullmatch(r'i[0-9]+', v) is not None or
                    v in ('void', 'float', 'double', 'x86_fp80', 'half', 'fp128', 'opaque', 'label',
                          'metadata', 'token', 'ptr'))
        if k in ('id', 'qid'):
            return v[0] == '%' and unq(v)[1:] in self.mod.named_types_seen
        return v in ('{', '[', '<')

    def type(self):
        k, v = self.next()
        if k == 'word':
            m = re.fullmatch(r'i([0-9]+)', v)
            if m:
                t = INT(int(m.group(1)))
            elif v == 'void':
                t = VOID
            elif v in ('float', 'double', 'x86_fp80', 'half', 'fp128'):
                t = ('fp', v)
            elif v == 'opaque':
                t = ('opaque',)
            elif v in ('label', 'metadata', 'token'):
                t = ('misc', v)
            else:
                raise Unsupported("type word " + v + " in " + self.ctx())
        elif k in ('id', 'qid') and v[0] == '%':
            t = ('named', unq(v)[1:])
        elif v == '{':
            t = ('struct', tuple(self.type_list('}')), False)
        elif v == '[':
            n = int(self.next()[1])
            self.expect('x')
            e = self.type()
            self.expect(']')
            t = ('arr', n, e)
        elif v == '<':
            if self.accept('{'):
                el = tuple(self.type_list('}'))
                self.expect('>')
                t = ('struct', el, True)
            else:
                n = int(self.next()[1])
                self.expect('x')
                e = self.type()
                self.expect('>')
                t = ('vec', n, e)
        else:
            raise Unsupported("type token %r in %s" % (v, self.ctx()))
        while True:
            if self.accept('*'):
                t = PTR(t)
            elif self.peek()[1] == '(' and self.peek()[0] == 'punct':
                self.i += 1
                ps = []
                va = False
                if not self.accept(')'):
                    while True:
                        if self.peek()[0] == 'dots':
                            self.i += 1
                            va = True
                        else:
                            ps.append(self.type())
                            self.skip_attrs()
                        if self.accept(')'):
                            break
                        self.expect(',')
                t = ('func', t, tuple(ps), va)
            elif self.peek() == ('word', 'addrspace'):
                self.i += 1
                self.skip_group()
            else:
                return t

    def type_list(self, close):
        out = []
        if self.accept(close):
            return out
        while True:
            out.append(self.type())
            if self.accept(close):
                return out
            self.expect(',')

    # ---- values: returns ('local',name) ('global',name) ('int',n) ('null',) ('undef',)
    #              ('zero',) ('cstr',bytes) ('agg',[(T,V)..]) ('cexpr',op,...) ('fp',text)
    def value(self, ty):
        k, v = self.next()
        if k in ('id', 'qid'):
            n = unq(v)
            return ('local', n[1:]) if n[0] == '%' else ('global', n[1:])
        if k == 'int':
            return ('int', int(v))
        if k in ('fp', 'hexfp'):
            return ('fp', v)
        if k == 'str':
            body = v[2:-1]
            bs = bytearray()
            j = 0
            while j < len(body):
                if body[j] == '\\':
                    if body[j + 1] == '\\':
                        bs.append(92)
                        j += 2
                    else:
                        bs.append(int(body[j + 1:j + 3], 16))
                        j += 3
                else:
                    bs.append(ord(body[j]))
                    j += 1
            return ('cstr', bytes(bs))
        if k == 'word':
            if v == 'null':
                return ('null',)
            if v in ('undef', 'poison'):
                return ('undef',)
            if v == 'true':
                return ('int', 1)
            if v == 'false':
                return ('int', 0)
            if v == 'zeroinitializer':
                return ('zero',)
            if v in ('getelementptr',):
                inb = False
                while self.peek()[0] == 'word' and self.peek()[1] in ('inbounds', 'inrange'):
                    self.i += 1
                self.expect('(')
                bt = self.type()
                self.expect(',')
                ops = []
                while True:
                    if self.peek() == ('word', 'inrange'):
                        self.i += 1
                    t = self.type()
                    ops.append((t, self.value(t)))
                    if self.accept(')'):
                        break
                    self.expect(',')
                return ('cexpr', 'gep', bt, ops)
            if v in ('bitcast', 'inttoptr', 'ptrtoint', 'trunc', 'zext', 'sext', 'addrspacecast'):
                self.expect('(')
                t = self.type()
                x = self.value(t)
                self.expect('to')
                t2 = self.type()
                self.expect(')')
                return ('cexpr', v, t, x, t2)
            if v in ('add', 'sub', 'mul', 'and', 'or', 'xor', 'shl', 'lshr', 'ashr', 'icmp', 'select'):
                while self.peek()[0] == 'word' and self.peek()[1] in ('nsw', 'nuw', 'exact'):
                    self.i += 1
                pred = None
                if v == 'icmp':
                    pred = self.next()[1]
                self.expect('(')
                ops = []
                while True:
                    t = self.type()
                    ops.append((t, self.value(t)))
                    if self.accept(')'):
                        break
                    self.expect(',')
                return ('cexpr', v, pred, ops)
        if v in ('{', '[') or (v == '<' and k == 'punct'):
            packed = False
            if v == '<':
                if self.accept('{'):
                    packed = True
                    close = '}'
                else:
                    close = '>'
            else:
                close = '}' if v == '{' else ']'
            els = []
            if not self.accept(close):
                while True:
                    t = self.type()
                    els.append((t, self.value(t)))
                    if self.accept(close):
                        break
                    self.expect(',')
            if packed:
                self.expect('>')
            return ('agg', els)
        raise Unsupported("value token %r (%s) in %s" % (v, k, self.ctx()))

    def typed_value(self):
        t = self.type()
        self.skip_attrs()
        return t, self.value(t)

# --------------------------------------------------------------------------- module
class Func:
    pass

class Module:
    def __init__(self):
        self.named = {}            # name -> type
        self.named_types_seen = set()
        self.globals = {}          # name -> dict(type, init, external, const)
        self.gorder = []
        self.funcs = {}            # name -> Func
        self.forder = []
        self.aliases = {}          # name -> (type, target value)
        self.attrgroups = {}       # '#n' -> set(words)
        self.ctors = []

def join_lines(text):
    """instructions that span several lines (landingpad clauses, invoke, switch) are joined"""
    out = []
    lines = text.split('\n')
    i = 0
    n = len(lines)
    while i < n:
        l = lines[i]
        s = l.strip()
        if l.startswith('  ') and (' landingpad ' in l or s.startswith('landingpad')):
            while i + 1 < n and re.match(r'\s+(cleanup|catch|filter)\b', lines[i + 1]):
                l += ' ' + lines[i + 1].strip()
                i += 1
        elif l.startswith('  ') and re.search(r'\binvoke\b', l) and i + 1 < n and lines[i + 1].strip().startswith('to label'):
            l += ' ' + lines[i + 1].strip()
            i += 1
        elif l.startswith('  ') and re.match(r'\s+switch\b', l) and not re.search(r'\]\s*(,\s*!.*)?$', s):
            while i + 1 < n:
                i += 1
                l += ' ' + lines[i].strip()
                if lines[i].strip().startswith(']'):
                    break
        out.append(l)
        i += 1
    return out

def strip_meta(toks):
    """drop ', !tbaa !4' style suffixes and metadata tokens"""
    out = []
    i = 0
    while i < len(toks):
        k, v = toks[i]
        if k == 'meta':
            if out and out[-1][1] == ',':
                out.pop()
            i += 1
            # '!tbaa' '!4' pairs
            while i < len(toks) and toks[i][0] == 'meta':
                i += 1
            continue
        out.append(toks[i])
        i += 1
    return out

def parse_module(text):
    mod = Module()
    lines = join_lines(text)
    for l in lines:
        m = re.match(r'(%(?:"[^"]*"|[-a-zA-Z$._0-9]+)) = type ', l)
        if m:
            mod.named_types_seen.add(unq(m.group(1))[1:])
    cur = None
    for l in lines:
        if not l.strip() or l.startswith(';') or l.startswith('source_filename') or l.startswith('target ') \
           or l.startswith('!') or l.startswith('$'):
            continue
        if cur is not None:
            if l.startswith('}'):
                cur = None
                continue
            cur.body.append(l)
            continue
        if l.startswith('%'):
            toks = lex(l)
            p = P(toks, mod)
            name = unq(p.next()[1])[1:]
            p.expect('=')
            p.expect('type')
            mod.named[name] = p.type()
            continue
        if l.startswith('attributes '):
            m = re.match(r'attributes (#[0-9]+) = \{(.*)\}', l)
            mod.attrgroups[m.group(1)] = set(re.findall(r'(?<!")\b[a-z_]+\b(?!")', re.sub(r'"[^"]*"(="[^"]*")?', '', m.group(2))))
            continue
        if l.startswith('@'):
            toks = strip_meta(lex(l))
            p = P(toks, mod)
            name = unq(p.next()[1])[1:]
            p.expect('=')
            at = p.skip_attrs()
            k, v = p.next()
            if v == 'alias':
                t = p.type()
                p.expect(',')
                t2, val = p.typed_value()
                mod.aliases[name] = (t, val)
                continue
            if v not in ('global', 'constant'):
                raise Unsupported("global def: " + l[:120])
            t = p.type()
            init = None
            if not at.get('external') and not at.get('extern_weak') and not p.eof() and p.peek()[1] != ',':
                init = p.value(t)
            if name == 'llvm.global_ctors':
                for (et, ev) in init[1]:
                    prio = ev[1][0][1][1]
                    fn = ev[1][1][1]
                    mod.ctors.append((prio, fn))
                continue
            if name.startswith('llvm.'):
                continue
            mod.globals[name] = dict(type=t, init=init, external=init is None, const=(v == 'constant'),
                                     weak=bool(at.get('extern_weak')))
            mod.gorder.append(name)
            continue
        if l.startswith('declare ') or l.startswith('define '):
            isdef = l.startswith('define ')
            toks = strip_meta(lex(l))
            p = P(toks, mod)
            p.next()
            at = p.skip_attrs()
            ret = p.type_noparen()
            k, v = p.next()
            name = unq(v)[1:]
            p.expect('(')
            params = []
            vararg = False
            if not p.accept(')'):
                while True:
                    if p.peek()[0] == 'dots':
                        p.i += 1
                        vararg = True
                    else:
                        t = p.type()
                        pa = p.skip_attrs()
                        pn = None
                        if p.peek()[0] in ('id', 'qid'):
                            pn = unq(p.next()[1])[1:]
                        params.append((t, pn, pa))
                    if p.accept(')'):
                        break
                    p.expect(',')
            rest = p.skip_attrs()
            f = Func()
            f.name = name
            f.ret = ret
            f.params = params
            f.vararg = vararg
            f.isdef = isdef
            f.body = []
            f.groups = rest.get('groups', []) + at.get('groups', [])
            f.nounwind = 'nounwind' in rest or any('nounwind' in mod.attrgroups.get(g, ()) for g in [])
            f.internal = bool(at.get('internal') or at.get('private'))
            f.line = l
            if name in mod.funcs and mod.funcs[name].isdef and not isdef:
                continue
            mod.funcs[name] = f
            if name not in mod.forder:
                mod.forder.append(name)
            if isdef:
                cur = f
            continue
        raise Unsupported("top-level line: " + l[:100])
    # attribute groups are defined at the end of the file; resolve nounwind now
    for f in mod.funcs.values():
        if any('nounwind' in mod.attrgroups.get(g, ()) for g in f.groups):
            f.nounwind = True
        f.noreturn = any('noreturn' in mod.attrgroups.get(g, ()) for g in f.groups)
    return mod

def _type_noparen(self):
    """return type of a define/declare: a type that is not followed by a call-style
    parameter list (the '(' after @name belongs to the function, and function-pointer
    return types are written with their own parens before '*')."""
    return self.type()
P.type_noparen = _type_noparen

# --------------------------------------------------------------------------- C emission
C_KEYWORDS = set('''auto break case char const continue default do double else enum extern float for goto if
inline int long register restrict return short signed sizeof static struct switch typedef union unsigned
void volatile while _Bool main'''.split())

def cid(name, prefix=''):
    s = re.sub(r'[^A-Za-z0-9_]', lambda m: '_%02x' % ord(m.group()), name)
    if prefix:
        s = prefix + s
    if s[0].isdigit():
        s = '_' + s
    if s in C_KEYWORDS:
        s = s + '_'
    return s

class Emitter:
    def __init__(self, mod, opts):
        self.mod = mod
        self.opts = opts
        self.tdefs = []          # emitted typedef/struct text in order
        self.tnames = {}         # type -> C name
        self.struct_defined = set()
        self.struct_inprogress = set()
        self.fwd = []
        self.out = []
        self.sizes = {}
        self.overrides = set(opts.get('override', []))
        self.erase = opts.get('erase_sigs', True)
        self.used_externals = set()
        self.warnings = []
        self.addr_taken = None

    # ------------------------------------------------------------ layout (x86-64)
    def resolve(self, t):
        while t[0] == 'named':
            if t[1] not in self.mod.named:
                return ('opaque',)
            t = self.mod.named[t[1]]
        return t

    def sizeof(self, t):
        return self.layout(t)[0]
    def alignof(self, t):
        return self.layout(t)[1]

    def layout(self, t):
        if t in self.sizes:
            return self.sizes[t]
        r = self._layout(t)
        self.sizes[t] = r
        return r

    def _layout(self, t):
        k = t[0]
        if k == 'int':
            n = t[1]
            b = 1
            while b * 8 < n:
                b *= 2
            return (b, min(b, 16) if b <= 8 else 16)
        if k == 'ptr':
            return (8, 8)
        if k == 'fp':
            return {'float': (4, 4), 'double': (8, 8), 'x86_fp80': (16, 16), 'half': (2, 2), 'fp128': (16, 16)}[t[1]]
        if k == 'arr':
            s, a = self.layout(t[2])
            return (s * t[1], a)
        if k == 'vec':
            s, a = self.layout(t[2])
            return (s * t[1], s * t[1])
        if k == 'named':
            return self.layout(self.resolve(t))
        if k == 'struct':
            off = 0
            al = 1
            for e in t[1]:
                s, a = self.layout(e)
                if t[2]:
                    a = 1
                off = (off + a - 1) // a * a
                off += s
                al = max(al, a)
            off = (off + al - 1) // al * al
            return (off, al)
        if k == 'opaque':
            return (1, 1)
        if k == 'func':
            return (1, 1)
        raise Unsupported("layout of %r" % (t,))

    def field_offset(self, st, idx):
        st = self.resolve(st)
        off = 0
        for i, e in enumerate(st[1]):
            s, a = self.layout(e)
            if st[2]:
                a = 1
            off = (off + a - 1) // a * a
            if i == idx:
                return off
            off += s
        raise Unsupported("field index")

    # ------------------------------------------------------------ C types
    def int_ctype(self, n):
        if n == 1:
            return '_Bool'
        for w in (8, 16, 32, 64):
            if n <= w:
                return 'uint%d_t' % w
        if n <= 128:
            return 'vp_u128'
        raise Unsupported("int width %d" % n)

    def sint_ctype(self, n):
        for w in (8, 16, 32, 64):
            if n <= w:
                return 'int%d_t' % w
        if n <= 128:
            return 'vp_i128'
        raise Unsupported("int width %d" % n)

    def ctype(self, t):
        """a simple C type name (typedef'd where needed)"""
        if t in self.tnames:
            return self.tnames[t]
        k = t[0]
        if k == 'void':
            r = 'void'
        elif k == 'int':
            r = self.int_ctype(t[1])
        elif k == 'fp':
            r = {'float': 'float', 'double': 'double', 'x86_fp80': 'long double', 'half': 'float', 'fp128': 'long double'}[t[1]]
        elif k == 'ptr':
            e = t[1]
            if e[0] == 'void':
                r = 'void*'
            elif e[0] == 'func':
                r = self.ctype(e) + '*'
            else:
                r = self.ctype_incomplete(e) + '*'
        elif k == 'named':
            r = self.named_cname(t[1])
            self.tnames[t] = r
            self.define_struct(t)
            return r
        elif k == 'struct':
            h = hashlib.md5(repr(t).encode()).hexdigest()[:10]
            r = 'lit_' + h
            self.tnames[t] = r
            self.fwd.append('typedef struct %s %s;' % (r, r))
            self.define_struct(t)
            return r
        elif k == 'arr':
            h = hashlib.md5(repr(t).encode()).hexdigest()[:10]
            r = 'arr_' + h
            self.tnames[t] = r
            et = self.ctype(t[2])
            self.tdefs.append('typedef %s %s[%d];' % (et, r, max(t[1], 0)) if t[1] > 0 else
                              'typedef %s %s[1]; /* zero-length */' % (et, r))
            return r
        elif k == 'func':
            h = hashlib.md5(repr(t).encode()).hexdigest()[:10]
            r = 'fn_' + h
            self.tnames[t] = r
            rt = self.ctype(t[1])
            ps = [self.ctype(p) for p in t[2]]
            if t[3] and ps:
                ps.append('...')
            if not ps and not t[3]:
                ps = ['void']
            self.tdefs.append('typedef %s %s(%s);' % (rt, r, ', '.join(ps)))
            return r
        elif k == 'opaque':
            r = 'vp_opaque'
        elif k == 'vec':
            raise Unsupported("vector type")
        elif k == 'misc':
            r = 'void*'
        else:
            raise Unsupported("ctype %r" % (t,))
        self.tnames[t] = r
        return r

    def named_cname(self, name):
        return cid(name, 'T_')

    def ctype_incomplete(self, t):
        """type name usable behind a pointer (struct need not be complete)"""
        if t[0] == 'named':
            r = self.named_cname(t[1])
            if ('fwdnamed', t[1]) not in self.tnames:
                self.tnames[('fwdnamed', t[1])] = r
                rt = self.mod.named.get(t[1])
                if rt is None or rt[0] == 'opaque':
                    self.fwd.append('typedef struct %s %s;' % (r, r))
                elif rt[0] == 'struct':
                    self.fwd.append('typedef struct %s %s;' % (r, r))
                else:
                    raise Unsupported("named non-struct type " + t[1])
                self.pending_structs.append(t)
            return r
        return self.ctype(t)

    pending_structs = []

    def define_struct(self, t):
        """emit full struct definition (members' full definitions first)"""
        key = t
        if key in self.struct_defined:
            return
        if key in self.struct_inprogress:
            raise Unsupported("recursive by-value struct %r" % (t,))
        self.struct_inprogress.add(key)
        if t[0] == 'named':
            name = self.named_cname(t[1])
            if ('fwdnamed', t[1]) not in self.tnames:
                self.tnames[('fwdnamed', t[1])] = name
                self.fwd.append('typedef struct %s %s;' % (name, name))
            rt = self.mod.named.get(t[1], ('opaque',))
        else:
            name = self.tnames[t]
            rt = t
        if rt[0] == 'opaque':
            self.tdefs.append('struct %s { uint8_t opaque_; };' % name)
        else:
            mem = []
            for i, e in enumerate(rt[1]):
                mem.append('  %s f%d;' % (self.ctype(e), i))
            if not mem:
                mem.append('  uint8_t empty_[0];')
            pk = ' __attribute__((packed))' if rt[2] else ''
            self.tdefs.append('struct%s %s {\n%s\n};' % (pk, name, '\n'.join(mem)))
        self.struct_inprogress.discard(key)
        self.struct_defined.add(key)

    def flush_pending(self):
        while self.pending_structs:
            t = self.pending_structs.pop()
            self.ctype(t)

    # ------------------------------------------------------------ names
    def gname(self, name):
        if name in self.mod.aliases:
            tgt = self.mod.aliases[name][1]
            if tgt[0] == 'global':
                return self.gname(tgt[1])
        return cid(name)

    # ------------------------------------------------------------ constants
    def const_init(self, t, v):
        """C initializer text for constant v of type t"""
        k = v[0]
        rt = self.resolve(t)
        if k == 'zero' or k == 'undef':
            if rt[0] in ('struct', 'arr'):
                return '{0}'
            if rt[0] == 'ptr':
                return '0'
            return '0'
        if k == 'cstr':
            return '{' + ','.join(str(b) for b in v[1]) + '}'
        if k == 'agg':
            if not v[1]:
                return '{0}'
            return '{' + ', '.join(self.const_init(et, ev) for et, ev in v[1]) + '}'
        return self.const_expr(t, v)

    def const_expr(self, t, v):
        k = v[0]
        if k == 'int':
            return self.int_lit(t, v[1])
        if k == 'null':
            return '((%s)0)' % self.ctype(t)
        if k in ('undef', 'zero'):
            rt = self.resolve(t)
            if rt[0] in ('struct', 'arr'):
                return '((%s){0})' % self.ctype(t)
            return '((%s)0)' % self.ctype(t)
        if k == 'global':
            return self.global_ref(v[1])
        if k == 'fp':
            return self.fp_lit(v[1])
        if k == 'cexpr':
            op = v[1]
            if op == 'gep':
                bt, ops = v[2], v[3]
                base = self.const_expr(ops[0][0], ops[0][1])
                e, rt_ = self.gep_expr(bt, base, [(ot, self.const_expr(ot, ov), ov) for ot, ov in ops[1:]])
                return e
            if op in ('bitcast', 'inttoptr', 'ptrtoint', 'trunc', 'zext', 'addrspacecast'):
                return '((%s)%s)' % (self.ctype(v[4]), self.const_expr(v[2], v[3]))
            if op in ('add', 'sub', 'mul', 'and', 'or', 'xor'):
                a = self.const_expr(*v[3][0])
                b = self.const_expr(*v[3][1])
                cop = {'add': '+', 'sub': '-', 'mul': '*', 'and': '&', 'or': '|', 'xor': '^'}[op]
                return '((%s)(%s %s %s))' % (self.ctype(v[3][0][0]), a, cop, b)
            if op == 'icmp':
                a = self.const_expr(*v[3][0])
                b = self.const_expr(*v[3][1])
                return self.icmp_expr(v[2], v[3][0][0], a, b)
            if op == 'select':
                c = self.const_expr(*v[3][0])
                a = self.const_expr(*v[3][1])
                b = self.const_expr(*v[3][2])
                return '(%s ? %s : %s)' % (c, a, b)
        if k == 'agg':
            return '((%s)%s)' % (self.ctype(t), self.const_init(t, v))
        raise Unsupported("const expr %r" % (v,))

    def fp_lit(self, text):
        if text.startswith('0x'):
            import struct
            h = text[2:]
            if h[0] in 'KLMHR':
                raise Unsupported("long fp literal")
            return repr(struct.unpack('>d', bytes.fromhex(h.rjust(16, '0')))[0])
        return text

    def int_lit(self, t, n):
        rt = self.resolve(t)
        if rt[0] == 'ptr':
            return '((%s)%d)' % (self.ctype(t), n)
        w = rt[1]
        n &= (1 << w) - 1
        if w == 1:
            return '((_Bool)%d)' % n
        if w <= 32:
            return '((%s)%dU)' % (self.ctype(t), n)
        if w <= 64:
            return '((%s)%dULL)' % (self.ctype(t), n)
        hi, lo = n >> 64, n & ((1 << 64) - 1)
        return '((((vp_u128)%dULL) << 64) | (vp_u128)%dULL)' % (hi, lo)

    def global_ref(self, name):
        """value of @name: a pointer"""
        m = self.mod
        if name in m.aliases:
            t, tgt = m.aliases[name]
            return self.const_expr(PTR(t), tgt)
        if name in m.funcs:
            self.note_func_use(name)
            return self.fname(name)
        if name in m.globals:
            g = m.globals[name]
            if g['external']:
                self.used_externals.add('@' + name)
                if retype_of(name):
                    return '((%s)&%s)' % (self.ctype(PTR(g['type'])), cid(name, 'g_'))
            return '(&%s)' % cid(name, 'g_')
        raise Unsupported("unknown global @" + name)

    def keep_gname(self, name):
        return False

    def fname(self, name):
        if name in LIBC_RENAME:
            return 'vp_libc_' + name
        if name in self.mod.aliases:
            tgt = self.mod.aliases[name][1]
            if tgt[0] == 'global':
                return self.fname(tgt[1])
        return cid(name)

    def note_func_use(self, name):
        f = self.mod.funcs.get(name)
        if f is not None and (not f.isdef or name in self.overrides):
            self.used_externals.add(name)

    # ------------------------------------------------------------ GEP
    def gep_expr(self, bt, base, idxs):
        """base: C expr of type bt*, idxs: [(type, cexpr, rawvalue)] -> (C expr, pointee type)"""
        cur_t = bt
        first = idxs[0]
        if first[2][0] == 'int' and first[2][1] == 0:
            e = '(*%s)' % base
        else:
            e = '%s[%s]' % (base, self.sidx(first))
        for ix in idxs[1:]:
            rt = self.resolve(cur_t)
            if rt[0] == 'struct':
                if ix[2][0] != 'int':
                    raise Unsupported("non-constant struct index")
                n = ix[2][1]
                e = '%s.f%d' % (e, n)
                cur_t = rt[1][n]
            elif rt[0] == 'arr':
                e = '%s[%s]' % (e, self.sidx(ix))
                cur_t = rt[2]
            else:
                raise Unsupported("gep into %r" % (rt,))
        self.ctype(cur_t)
        return '(&%s)' % e, cur_t

    def sidx(self, ix):
        t, e, raw = ix
        if raw[0] == 'int':
            return str(raw[1])
        w = self.resolve(t)[1]
        return '(%s)%s' % (self.sint_ctype(w), e)

    # ------------------------------------------------------------ icmp
    def icmp_expr(self, pred, t, a, b):
        rt = self.resolve(t)
        if rt[0] == 'ptr':
            if pred == 'eq':
                return '(%s == %s)' % (a, b)
            if pred == 'ne':
                return '(%s != %s)' % (a, b)
            op = {'ult': 'LT', 'ule': 'LE', 'ugt': 'GT', 'uge': 'GE', 'slt': 'LT', 'sle': 'LE', 'sgt': 'GT', 'sge': 'GE'}[pred]
            return 'VP_PTR_%s(%s, %s)' % (op, a, b)
        w = rt[1]
        if pred in ('eq', 'ne'):
            return '(%s %s %s)' % (a, '==' if pred == 'eq' else '!=', b)
        op = {'ult': '<', 'ule': '<=', 'ugt': '>', 'uge': '>=', 'slt': '<', 'sle': '<=', 'sgt': '>', 'sge': '>='}[pred]
        if pred[0] == 'u':
            return '((%s)%s %s (%s)%s)' % (self.uprom(w), a, op, self.uprom(w), b)
        return '(%s %s %s)' % (self.sx(w, a), op, self.sx(w, b))

    def uprom(self, w):
        return 'uint64_t' if w <= 64 else 'vp_u128'

    def sx(self, w, a):
        """C expr: value a of iW as a signed C integer of the holding width"""
        st = self.sint_ctype(w)
        hw = 8
        while hw < w:
            hw *= 2
        if w == 1:
            return '((int8_t)(%s ? -1 : 0))' % a
        if hw == w:
            return '((%s)%s)' % (st, a)
        # sign-extend from w bits
        return '((%s)(((%s)%s << %d)) >> %d)' % (st, st, a, hw - w, hw - w)

    def mask(self, w, e):
        if w in (8, 16, 32, 64, 128):
            return '((%s)(%s))' % (self.int_ctype(w), e)
        if w == 1:
            return '((_Bool)((%s) & 1))' % e
        return '((%s)((%s) & %s))' % (self.int_ctype(w), e, self.int_lit(INT(max(w, 8) if w > 8 else 8), (1 << w) - 1) if w <= 8 else self.int_lit(INT(64 if w <= 64 else 128), (1 << w) - 1))

    # ------------------------------------------------------------ functions
    def emit(self):
        m = self.mod
        body_txt = []
        # prototypes
        protos = []
        gdecls = []
        gdefs = []
        fdefs = []
        for name in m.gorder:
            g = m.globals[name]
            ct = self.ctype(g['type'])
            cn = cid(name, 'g_')
            if g['external'] and retype_of(name):
                ct = retype_of(name)
            gdecls.append('extern %s %s;' % (ct, cn))
        for name in m.forder:
            f = m.funcs[name]
            if name.startswith('llvm.'):
                continue
            if f.isdef and name not in self.overrides:
                if any(rx.search(name) for rx in self.opts.get('traps', [])):
                    fdefs.append(self.emit_trap(f))
                    self.trapped.append(name)
                elif any(rx.search(name) for rx in self.opts.get('empties', [])):
                    fdefs.append(self.emit_trap(f, empty=True))
                    self.emptied.append(name)
                else:
                    fdefs.append(self.emit_func(f))
        for name in m.gorder:
            g = m.globals[name]
            ct = self.ctype(g['type'])
            cn = cid(name, 'g_')
            if g['external']:
                # stubs define the retyped ones and __dso_handle; every other external object
                # (std::cerr, ...) is given zero-initialised storage here
                if not retype_of(name) and name not in ('__dso_handle',) and ('@' + name) in self.used_externals:
                    gdefs.append('%s %s; /* external object, zero storage */' % (ct, cn))
                    self.auto_defined.append(name)
                continue
            gdefs.append('%s %s = %s;' % (ct, cn, self.const_init(g['type'], g['init'])))
        # prototypes for all functions used
        for name in m.forder:
            f = m.funcs[name]
            if name.startswith('llvm.'):
                continue
            ext = (not f.isdef) or name in self.overrides
            if ext and name not in self.used_externals:
                continue
            protos.append(self.proto(f, ext) + ';')
        self.flush_pending()
        out = []
        out.append('/* generated by ll2c.py -- do not edit */')
        out.append('#include "vp_prelude.h"')
        out += self.fwd
        out += self.tdefs
        out += protos
        out += gdecls
        out += gdefs
        out.append('#include <stdlib.h>')
        out += [h[1] for h in self.new_helpers.values()]
        out += self.dispatchers()
        out += fdefs
        out.append(self.emit_init())
        return '\n'.join(out) + '\n'

    def emit_init(self):
        lines = ['void __vp_init(void) {']
        for prio, fn in sorted(self.mod.ctors, key=lambda x: x[0]):
            if fn[0] == 'global':
                lines.append('  %s();' % self.fname(fn[1]))
        lines.append('}')
        return '\n'.join(lines)

    def ext_ptype(self, t):
        rt = self.resolve(t)
        if rt[0] == 'ptr':
            return 'void*'
        return self.ctype(t)

    def proto(self, f, ext=False):
        if ext and self.erase:
            rt = self.ext_ptype(f.ret)
            ps = [self.ext_ptype(t) for (t, n, a) in f.params]
        else:
            rt = self.ctype(f.ret)
            ps = [self.ctype(t) for (t, n, a) in f.params]
        if f.vararg and ps:
            ps.append('...')
        if not ps and not f.vararg:
            ps = ['void']
        return '%s %s(%s)' % (rt, self.fname(f.name), ', '.join(ps))

    # ---- indirect call dispatch
    def shape(self, ret, params):
        def s(t):
            rt = self.resolve(t)
            if rt[0] == 'ptr':
                return 'p'
            if rt[0] == 'int':
                return 'i%d' % rt[1]
            if rt[0] == 'void':
                return 'v'
            if rt[0] == 'fp':
                return rt[1]
            return self.ctype(t)
        return (s(ret), tuple(s(p) for p in params))

    # ---- class hierarchy (for virtual-call devirtualisation)
    def build_cha(self):
        m = self.mod
        ti = [n for n in m.globals if n.startswith('_ZTI')]
        import subprocess
        dem = {}
        if ti:
            out = subprocess.run(['c++filt'], input='\n'.join(ti).encode(), stdout=subprocess.PIPE).stdout.decode().split('\n')
            for n, d_ in zip(ti, out):
                d_ = d_.replace('typeinfo for ', '')
                dem[n] = d_
        def strip_targs(x):
            outc = []
            depth = 0
            for ch in x:
                if ch == '<':
                    depth += 1
                elif ch == '>':
                    depth -= 1
                elif depth == 0:
                    outc.append(ch)
            return ''.join(outc).replace('(anonymous namespace)::', '')
        self.ti_class = {n: strip_targs(d_) for n, d_ in dem.items()}
        self.ti_bases = {}
        def refs(v, acc):
            if v is None:
                return
            if v[0] == 'global' and v[1].startswith('_ZTI'):
                acc.add(v[1])
            elif v[0] == 'agg':
                for et, ev in v[1]:
                    refs(ev, acc)
            elif v[0] == 'cexpr':
                for x in v[2:]:
                    if isinstance(x, tuple) and x and isinstance(x[0], str):
                        refs(x, acc)
                    elif isinstance(x, list):
                        for y in x:
                            if isinstance(y, tuple) and len(y) == 2 and isinstance(y[1], tuple):
                                refs(y[1], acc)
        for n in ti:
            acc = set()
            refs(m.globals[n]['init'], acc)
            acc.discard(n)
            self.ti_bases[n] = acc
        # vtables: name -> (typeinfo name, [function names or None] of the primary vtable after the 2 header slots)
        self.vtables = {}
        def strip(v):
            while v[0] == 'cexpr' and v[1] in ('bitcast',):
                v = v[3]
            return v
        for n, g in m.globals.items():
            if not n.startswith('_ZTV') or g['init'] is None or g['init'][0] != 'agg':
                continue
            first = g['init'][1][0][1] if g['init'][1] else None
            if first is None or first[0] != 'agg':
                continue
            ents = [strip(ev) for et, ev in first[1]]
            tinfo = ents[1][1] if len(ents) > 1 and ents[1][0] == 'global' else None
            fns = []
            for e in ents[2:]:
                if e[0] == 'global' and e[1] in m.funcs:
                    fns.append(e[1])
                elif e[0] == 'global' and e[1] in m.aliases and m.aliases[e[1]][1][0] == 'global':
                    fns.append(m.aliases[e[1]][1][1])
                else:
                    fns.append(None)
            self.vtables[n] = (tinfo, fns)

    def derives_from(self, tinfo, cls):
        """does the class of typeinfo symbol `tinfo' equal or derive from class name `cls'?"""
        seen = set()
        work = [tinfo]
        while work:
            t = work.pop()
            if t in seen or t is None:
                continue
            seen.add(t)
            if self.ti_class.get(t) == cls:
                return True
            work += list(self.ti_bases.get(t, ()))
        return False

    def virtual_candidates(self, cls, idx, sh):
        """functions in slot idx of every vtable whose class derives from cls (None: unknown class)"""
        known = cls is not None and cls in set(self.ti_class.values())
        if known and self.opts.get('cha_loose'):
            # (--cha-loose) a class whose LLVM type is just { vptr } is structurally identical to every other such interface
            # (value_producer<T>, constant_dom, builtin, ...): llvm merges them, the static name says nothing
            for pfx in ('class.', 'struct.'):
                t = self.mod.named.get(pfx + cls)
                if t is not None and t[0] == 'struct' and len(t[1]) == 1 and t[1][0][0] == 'ptr':
                    known = False
        out = []
        for vn, (tinfo, fns) in sorted(self.vtables.items()):
            if idx >= len(fns) or fns[idx] is None:
                continue
            if known and not self.derives_from(tinfo, cls):
                continue
            f = self.mod.funcs.get(fns[idx])
            if f is None or f.vararg:
                continue
            if self.shape(f.ret, [p[0] for p in f.params]) != sh:
                continue
            if f not in out:
                out.append(f)
        if known and not out:
            # llvm merges structurally identical class types (e.g. %class.pred into %class.op), so the
            # static class name can be wrong: fall back to slot + shape over all vtables
            return self.virtual_candidates(None, idx, sh)
        return out

    def dispatchers(self):
        """one dispatcher per indirect-call shape (and, for virtual calls, static class + slot)"""
        out = []
        cands = {}
        for name in sorted(self.addr_taken):
            f = self.mod.funcs.get(name)
            if f is None or f.vararg:
                continue
            sh = self.shape(f.ret, [p[0] for p in f.params])
            cands.setdefault(sh, []).append(f)
        for key, (dname, fty) in sorted(self.dispatch_needed.items(), key=lambda kv: kv[1][0]):
            sh, vcls, vidx = key
            ret, params, va = fty[1], fty[2], fty[3]
            rct = self.ctype(ret)
            args = ', '.join('%s a%d' % (self.ctype(p), i) for i, p in enumerate(params))
            lines = ['static %s %s(void *fp%s%s) { /* %s slot %s */' % (rct, dname, ', ' if args else '', args, vcls, vidx)]
            if vidx is not None:
                flist = self.virtual_candidates(vcls, vidx, sh)
            else:
                flist = cands.get(sh, [])
            for f in flist:
                ext = (not f.isdef) or f.name in self.overrides
                cargs = []
                for i, (pt, pn, pa) in enumerate(f.params):
                    if ext and self.erase:
                        cargs.append('(%s)a%d' % (self.ext_ptype(pt), i))
                    else:
                        cargs.append('(%s)a%d' % (self.ctype(pt), i))
                call = '%s(%s)' % (self.fname(f.name), ', '.join(cargs))
                if ret[0] == 'void':
                    lines.append('  if (fp == (void*)%s) { %s; return; }' % (self.fname(f.name), call))
                else:
                    lines.append('  if (fp == (void*)%s) return (%s)%s;' % (self.fname(f.name), rct, call))
            for (cn, cr, cps) in self.opts.get('candidates', []):
                if (cr, tuple(cps)) != sh:
                    continue
                def sct(x):
                    return {'p': 'void*', 'v': 'void', 'i1': '_Bool'}.get(x) or ('uint%s_t' % x[1:])
                protos_extra = '%s %s(%s);' % (sct(cr), cn, ', '.join(sct(x) for x in cps) or 'void')
                out.append(protos_extra)
                call = '%s(%s)' % (cn, ', '.join('(%s)a%d' % (sct(x), i) for i, x in enumerate(cps)))
                if ret[0] == 'void':
                    lines.append('  if (fp == (void*)%s) { %s; return; }' % (cn, call))
                else:
                    lines.append('  if (fp == (void*)%s) return (%s)%s;' % (cn, rct, call))
            lines.append('  VP_ASSERT(0, "indirect call: no candidate");')
            lines.append('  VP_ASSUME(0);')
            if ret[0] != 'void':
                lines.append('  return %s;' % self.zero(ret))
            lines.append('}')
            out.append('\n'.join(lines))
        return out

    dispatch_needed = {}

    new_helpers = {}
    WORDBUF_RX = re.compile(r'^$NEVER')   # word-typed state areas disabled: plain byte arrays fold better under concrete control
    def wordbuf_helper(self):
        """raw state areas (std::vector<uint8_t>) are allocated as arrays of 64-bit words: a pointer
        stored at an aligned offset is then ONE element, survives path merges as a single
        if-then-else and keeps its points-to set (bytewise storage splits it into 8 expressions)"""
        if 'wordbuf' not in self.new_helpers:
            lines = ['static uint8_t *vp_new_wordbuf(uint64_t nbytes) {',
                     '  uint64_t cnt = (nbytes + 7) / 8;',
                     '  uint64_t *p;',
                     '#ifdef __CPROVER__']
            ladder = [1, 2, 3, 4, 6, 8, 12, 16, 24, 32, 48, 64, 96, 128, 256]
            for i, k in enumerate(ladder):
                lines.append('  %sif (cnt <= %d) p = (uint64_t*)malloc(sizeof(uint64_t) * %d);' % ('else ' if i else '', k, k))
            lines.append('  else { VP_ASSERT(0, "state area larger than 2048 bytes (outside the modelled sizes)"); VP_ASSUME(0); p = 0; }')
            lines += ['#else', '  p = (uint64_t*)malloc(nbytes ? nbytes : 1);', '#endif', '  VP_ASSUME(p != 0);', '  return (uint8_t*)p;', '}']
            self.new_helpers['wordbuf'] = ('vp_new_wordbuf', '\n'.join(lines))
        return 'vp_new_wordbuf'

    def new_helper(self, et):
        """typed operator new: CBMC gives the object the element type when the malloc argument
        is literally sizeof(T) * count"""
        ct = self.ctype(et)
        if ct in self.new_helpers:
            return self.new_helpers[ct][0]
        name = 'vp_new_' + re.sub(r'[^A-Za-z0-9]', '_', ct)
        lines = ['static %s *%s(uint64_t nbytes) {' % (ct, name),
                 '  uint64_t cnt = nbytes / sizeof(%s);' % ct,
                 '  %s *p;' % ct,
                 '#ifdef __CPROVER__']
        ladder = [1, 2, 3, 4, 5, 6, 7, 8, 12, 16, 24, 32, 64, 128]
        for i, k in enumerate(ladder):
            lines.append('  %sif (cnt %s %d) p = (%s*)malloc(sizeof(%s) * %d);' % ('else ' if i else '', '==' if k <= 8 else '<=', k, ct, ct, k))
        lines.append('  else { VP_ASSERT(0, "typed allocation of more than 128 elements (outside the modelled sizes)"); VP_ASSUME(0); p = 0; }')
        lines += ['#else', '  p = (%s*)malloc(nbytes ? nbytes : 1);' % ct, '#endif', '  VP_ASSUME(p != 0);', '  return p;', '}']
        self.new_helpers[ct] = (name, '\n'.join(lines))
        return name

    def zero(self, t):
        rt = self.resolve(t)
        if rt[0] in ('struct', 'arr'):
            return '((%s){0})' % self.ctype(t)
        return '((%s)0)' % self.ctype(t)

    trapped = []
    auto_defined = []
    emptied = []
    def emit_trap(self, f, empty=False):
        ps = ['%s a%d' % (self.ctype(t), i) for i, (t, n, a) in enumerate(f.params)]
        if f.vararg and ps:
            ps.append('...')
        if not ps:
            ps = ['void']
        body = '  VP_ASSERT(0, "trap: %s reached (declared unreachable by the harness)");\n  VP_ASSUME(0);\n' % f.name[:60]
        if empty:
            body = '  /* body replaced by an empty model (--empty) */\n'
        if f.ret[0] != 'void':
            body += '  return %s;\n' % self.zero(f.ret)
        return '%s %s(%s) {\n%s}' % (self.ctype(f.ret), self.fname(f.name), ', '.join(ps), body)

    # ---- function body
    def emit_func(self, f):
        F = FuncEmitter(self, f)
        return F.run()

def scan_addr_taken(mod, text):
    """functions whose address escapes: any @f occurrence that is not the direct callee
    of a call/invoke.  Conservative: scan global initializers and instruction operands."""
    taken = set()
    fn = set(mod.funcs)
    for name, g in mod.globals.items():
        def walk(v):
            if v is None:
                return
            if v[0] == 'global' and v[1] in fn:
                taken.add(v[1])
            elif v[0] == 'global' and v[1] in mod.aliases:
                walk(mod.aliases[v[1]][1])
            elif v[0] == 'agg':
                for et, ev in v[1]:
                    walk(ev)
            elif v[0] == 'cexpr':
                for x in v[2:]:
                    if isinstance(x, tuple):
                        walk(x)
                    elif isinstance(x, list):
                        for y in x:
                            if isinstance(y, tuple) and len(y) == 2 and isinstance(y[1], tuple):
                                walk(y[1])
        walk(g['init'])
    # in function bodies: @f not immediately followed by '(' as callee
    for f in mod.funcs.values():
        for l in f.body:
            for m in re.finditer(r'@("(?:[^"\\]|\\.)*"|[-a-zA-Z$._0-9]+)', l):
                n = unq('@' + m.group(1))[1:]
                if n in mod.aliases and mod.aliases[n][1][0] == 'global':
                    n = mod.aliases[n][1][1]
                if n not in fn:
                    continue
                # direct callee?  "call ... @f(" / "invoke ... @f("
                after = l[m.end():m.end() + 1]
                before = l[:m.start()]
                if after == '(' and re.search(r'\b(call|invoke)\b', before) and not re.search(r'\(', before.split('call')[-1].split('invoke')[-1]):
                    continue
                taken.add(n)
    return taken

LIBC_RENAME = {'memcpy', 'memmove', 'memset', 'memcmp', 'strlen', 'memchr', 'strcmp', 'strchr',
               'strtoul', 'strtoull', 'strtol', 'strtoll', 'isprint', 'isdigit', 'isspace', 'sprintf', 'snprintf',
               'bcmp', 'strncmp'}
# external globals that the stubs define with their own C type
RETYPE = [
    (re.compile(r'^_ZTVN10__cxxabiv1'), 'vp_cxxabi_vt'),
    (re.compile(r'^_ZTVSt'), 'vp_std_vt'),
    (re.compile(r'^_ZTI'), 'vp_typeinfo'),
]
def retype_of(name):
    for rx, ct in RETYPE:
        if rx.match(name):
            return ct
    return None

BINOPS = {'add': '+', 'sub': '-', 'mul': '*', 'and': '&', 'or': '|', 'xor': '^'}

class FuncEmitter:
    def __init__(self, E, f):
        self.E = E
        self.f = f
        self.mod = E.mod
        self.types = {}      # local name -> type
        self.decls = []
        self.code = []
        self.tmpn = 0
        self.bitcast_src = {}   # local -> (srctype, srcname) for look-through of i8* casts
        self.zext64 = {}        # local i128 defined as zext of an i64 value -> C expr of that value
        self.p2i = {}           # local iN defined by ptrtoint -> C expr of the pointer
        self.icmp_here = {}
        self.entry_nn = []
        self.ptrshadow = {}     # i64 local loaded from a pointer-shaped 8-byte object -> C var holding it as void*
        self.nonnull_block = set()
        self.nonnull = set()    # locals known non-null (allocas, GEP results, nonnull params, checked)
        self.vt_of = {}         # local holding a loaded vptr -> static class name of the object
        self.slot_of = {}       # local = &vptr[idx] -> (class, idx)
        self.fp_of = {}         # local holding a function pointer loaded from a vtable slot -> (class, idx)
        self.new_type = {}      # local i8* returned by operator new -> element type it is cast to
        self.blocks = []

    def lname(self, n):
        return cid(n, 'v')

    def label(self, n):
        return cid(n, 'L')

    def val(self, t, v):
        if v[0] == 'local':
            return self.lname(v[1])
        return self.E.const_expr(t, v)

    def run(self):
        E = self.E
        f = self.f
        # split into blocks
        blocks = []
        cur = ('%entry', [])
        first = True
        for l in f.body:
            m = re.match(r'^(?:([-a-zA-Z$._0-9]+)|"((?:[^"\\]|\\.)*)"):', l)
            if m:
                if cur[1] or not first:
                    blocks.append(cur)
                cur = (m.group(1) or m.group(2), [])
                first = False
                continue
            if l.strip().startswith(';'):
                continue
            cur[1].append(l)
            first = False
        blocks.append(cur)
        # entry block has implicit label = next unnamed number
        if blocks[0][0] == '%entry':
            nparam = len(f.params)
            unnamed = sum(1 for (t, n, a) in f.params if n is not None and n.isdigit())
            blocks[0] = (str(max([int(n) for (t, n, a) in f.params if n and n.isdigit()] + [-1]) + 1), blocks[0][1])
        self.blocks = blocks
        # parse all instructions
        parsed = []
        for bn, lines in blocks:
            ins = []
            for l in lines:
                toks = strip_meta(lex(l))
                ins.append(self.parse_ins(toks, l))
            parsed.append((bn, ins))
        # operator new results and the pointer type they are first cast to
        newres = {}
        for bn, ins in parsed:
            for i in ins:
                if i['op'] in ('call', 'invoke') and i['dest'] is not None:
                    cal = self.strip_cast(i['callee'])
                    if cal[0] == 'global' and cal[1] in ('_Znwm', '_Znam'):
                        newres[i['dest']] = i
                elif i['op'] == 'bitcast' and i['a'][0] == 'local' and i['a'][1] in newres and i['a'][1] not in self.new_type:
                    rt = E.resolve(i['rtype'])
                    if rt[0] == 'ptr' and E.resolve(rt[1])[0] in ('struct', 'int', 'ptr', 'arr'):
                        self.new_type[i['a'][1]] = rt[1]
        # parameter types
        for (t, n, a) in f.params:
            self.types[n] = t
            if 'nonnull' in a or 'sret' in a or 'byval' in a:
                self.nonnull.add(n)
                self.entry_nn.append(n)
        # phi collection: for each block, list of (dest, type, [(val, pred)])
        phis = {}
        for bn, ins in parsed:
            for i in ins:
                if i['op'] == 'phi':
                    phis.setdefault(bn, []).append(i)
        self.phis = phis
        self.has_landing = any(i['op'] == 'landingpad' for bn, ins in parsed for i in ins)
        # shifts all of whose uses are arms of a select: an over-wide amount only yields poison that the select
        # discards (clang's if-conversion of `n < W ? x >> n : 0'), so no UB assertion is emitted for them
        def locals_in(v, acc):
            if isinstance(v, tuple) and len(v) >= 2 and v[0] == 'local' and isinstance(v[1], str):
                acc.append(v[1])
            elif isinstance(v, (tuple, list)):
                for x in v:
                    locals_in(x, acc)
            elif isinstance(v, dict):
                for x in v.values():
                    locals_in(x, acc)
        PURE = ('add', 'sub', 'mul', 'and', 'or', 'xor', 'shl', 'lshr', 'ashr', 'icmp', 'zext', 'sext', 'trunc', 'getelementptr', 'bitcast')
        shifts = set(i['dest'] for bn, ins in parsed for i in ins if i['op'] in ('shl', 'lshr', 'ashr'))
        uses = {}           # local -> [(user op, user dest, is-select-arm)]
        for bn, ins in parsed:
            for i in ins:
                if i['op'] == 'select':
                    acc = []
                    locals_in(i.get('c'), acc)
                    for n in acc:
                        uses.setdefault(n, []).append(('other', None))
                    acc = []
                    locals_in([i.get('a'), i.get('b')], acc)
                    for n in acc:
                        uses.setdefault(n, []).append(('arm', None))
                else:
                    acc = []
                    locals_in({k: v for k, v in i.items() if k != 'dest'}, acc)
                    for n in acc:
                        uses.setdefault(n, []).append((i['op'] if i['op'] in PURE else 'other', i.get('dest')))
        guarded = set(n for n in uses)
        changed = True
        while changed:
            changed = False
            for n in list(guarded):
                ok = all(k == 'arm' or (k != 'other' and d in guarded) for k, d in uses[n])
                if not ok:
                    guarded.discard(n)
                    changed = True
        self.spec_shift = shifts & guarded
        self.spec_vals = set(guarded)      # values that only ever reach select arms: speculated, poison is harmless
        # ... and values with at least one such use: evidence that the instruction was hoisted above the test that
        # guards its other uses (`it + 1' computed before `it != end' is known)
        for n, us in uses.items():
            if any(k == 'arm' or (k != 'other' and dd in guarded) for k, dd in us):
                self.spec_vals.add(n)
        self.used_locals = set(uses)
        # emit
        for bn, ins in parsed:
            self.cur_block = bn
            self.code.append('%s: ;' % self.label(bn))
            for i in ins:
                self.emit_ins(i)
        # header
        ps = []
        pre = []
        for (t, n, a) in f.params:
            ps.append('%s %s' % (E.ctype(t), self.lname(n)))
            if 'byval' in a:
                bt = a['byval']
                tmp = '%s_byval' % self.lname(n)
                pre.append('  %s %s = *%s; %s = &%s;' % (E.ctype(bt), tmp, self.lname(n), self.lname(n), tmp))
        if f.vararg:
            ps.append('...')
        if not ps:
            ps = ['void']
        hdr = '%s %s(%s) {' % (E.ctype(f.ret), E.fname(f.name), ', '.join(ps))
        out = [hdr]
        # the caller's non-null contract (references, this, sret) as an explicit test: filters the
        # parameter's value set inside the callee
        # (a nonnull parameter the body never uses may legitimately receive undef after dead-argument elimination)
        out += ['  VP_NONNULL(%s);' % self.lname(n) for n in self.entry_nn if n in self.used_locals]
        out += pre
        out += self.decls
        out += ['  ' + c for c in self.code]
        out.append('}')
        return '\n'.join(out)

    def declare(self, name, t):
        if t[0] == 'void':
            return
        self.types[name] = t
        self.decls.append('  %s %s;' % (self.E.ctype(t), self.lname(name)))

    def tmp(self, ctype):
        self.tmpn += 1
        n = 't__%d' % self.tmpn
        self.decls.append('  %s %s;' % (ctype, n))
        return n

    # ------------------------------------------------------------ parse
    def parse_ins(self, toks, line):
        if '@llvm.experimental.noalias.scope.decl' in line or '@llvm.dbg.' in line:
            return dict(op='fence', dest=None, line=line)
        p = P(toks, self.mod)
        dest = None
        if p.peek()[0] in ('id', 'qid') and p.peek(1)[1] == '=':
            dest = unq(p.next()[1])[1:]
            p.next()
        # tail markers
        while p.peek()[1] in ('tail', 'musttail', 'notail'):
            p.next()
        op = p.next()[1]
        I = dict(op=op, dest=dest, line=line)
        if op in BINOPS or op in ('shl', 'lshr', 'ashr', 'udiv', 'sdiv', 'urem', 'srem'):
            flags = p.skip_attrs()
            t = p.type()
            a = p.value(t)
            p.expect(',')
            b = p.value(t)
            I.update(t=t, a=a, b=b, flags=flags, rtype=t)
        elif op in ('fadd', 'fsub', 'fmul', 'fdiv', 'frem', 'fneg', 'fcmp', 'fptoui', 'fptosi', 'uitofp', 'sitofp', 'fpext', 'fptrunc'):
            raise Unsupported("floating point instruction: " + op)
        elif op == 'icmp':
            pred = p.next()[1]
            t = p.type()
            a = p.value(t)
            p.expect(',')
            b = p.value(t)
            I.update(pred=pred, t=t, a=a, b=b, rtype=INT(1))
        elif op in ('zext', 'sext', 'trunc', 'bitcast', 'inttoptr', 'ptrtoint', 'addrspacecast'):
            t = p.type()
            a = p.value(t)
            p.expect('to')
            t2 = p.type()
            I.update(t=t, a=a, rtype=t2)
        elif op == 'select':
            ct, c = p.typed_value()
            p.expect(',')
            t, a = p.typed_value()
            p.expect(',')
            t2, b = p.typed_value()
            I.update(c=c, t=t, a=a, b=b, rtype=t)
        elif op == 'alloca':
            p.skip_attrs()
            t = p.type()
            cnt = None
            if p.accept(','):
                if p.peek()[1] == 'align':
                    p.skip_attrs()
                else:
                    ct, cnt = p.typed_value()
                    if p.accept(','):
                        p.skip_attrs()
            I.update(t=t, cnt=cnt, cnt_t=(ct if cnt is not None else None), rtype=PTR(t))
        elif op == 'load':
            p.skip_attrs()
            t = p.type()
            p.expect(',')
            pt, a = p.typed_value()
            I.update(t=t, a=a, pt=pt, rtype=t)
        elif op == 'store':
            p.skip_attrs()
            t, a = p.typed_value()
            p.expect(',')
            pt, b = p.typed_value()
            I.update(t=t, a=a, pt=pt, b=b, rtype=VOID)
        elif op == 'getelementptr':
            p.skip_attrs()
            bt = p.type()
            p.expect(',')
            pt, base = p.typed_value()
            idx = []
            while p.accept(','):
                if p.peek() == ('word', 'inrange'):
                    p.next()
                it, iv = p.typed_value()
                idx.append((it, iv))
            I.update(bt=bt, pt=pt, base=base, idx=idx)
        elif op == 'br':
            if p.peek()[1] == 'label':
                p.next()
                I.update(cond=None, t1=unq(p.next()[1])[1:])
            else:
                ct, c = p.typed_value()
                p.expect(',')
                p.expect('label')
                t1 = unq(p.next()[1])[1:]
                p.expect(',')
                p.expect('label')
                t2 = unq(p.next()[1])[1:]
                I.update(cond=c, t1=t1, t2=t2)
        elif op == 'switch':
            t, v = p.typed_value()
            p.expect(',')
            p.expect('label')
            dflt = unq(p.next()[1])[1:]
            p.expect('[')
            cases = []
            while not p.accept(']'):
                ct, cv = p.typed_value()
                p.expect(',')
                p.expect('label')
                cases.append((cv, unq(p.next()[1])[1:]))
            I.update(t=t, v=v, dflt=dflt, cases=cases)
        elif op == 'ret':
            t = p.type()
            v = None
            if t[0] != 'void':
                v = p.value(t)
            I.update(t=t, v=v)
        elif op == 'phi':
            t = p.type()
            inc = []
            while True:
                p.expect('[')
                v = p.value(t)
                p.expect(',')
                b = unq(p.next()[1])[1:]
                p.expect(']')
                inc.append((v, b))
                if not p.accept(','):
                    break
            I.update(t=t, inc=inc, rtype=t)
        elif op in ('call', 'invoke'):
            at = p.skip_attrs()
            rt = p.type()
            # rt may be a function type when the callee is vararg or the full type is spelled
            fty = None
            if rt[0] == 'func':
                fty = rt
                rt = fty[1]
            elif rt[0] == 'ptr' and rt[1][0] == 'func' and p.peek()[0] not in ('id', 'qid'):
                pass
            k, v = p.peek()
            if k in ('id', 'qid'):
                callee = p.value(None)
            elif v in ('bitcast', 'inttoptr'):
                callee = p.value(None)
            elif v == 'asm':
                raise Unsupported("inline asm")
            else:
                raise Unsupported("callee %r in %s" % (v, line))
            p.expect('(')
            args = []
            if not p.accept(')'):
                while True:
                    t = p.type()
                    pa = p.skip_attrs()
                    a = p.value(t)
                    args.append((t, a, pa))
                    if p.accept(')'):
                        break
                    p.expect(',')
            post = p.skip_attrs()
            I.update(rt=rt, callee=callee, args=args, fty=fty, rtype=rt,
                     groups=post.get('groups', []) + at.get('groups', []))
            if op == 'invoke':
                p.expect('to')
                p.expect('label')
                I['normal'] = unq(p.next()[1])[1:]
                p.expect('unwind')
                p.expect('label')
                I['unwind'] = unq(p.next()[1])[1:]
        elif op == 'landingpad':
            t = p.type()
            clauses = []
            cleanup = False
            while not p.eof():
                k, v = p.next()
                if v == 'cleanup':
                    cleanup = True
                elif v == 'catch':
                    ct, cv = p.typed_value()
                    clauses.append(('catch', cv))
                elif v == 'filter':
                    ct, cv = p.typed_value()
                    clauses.append(('filter', cv))
                else:
                    raise Unsupported("landingpad clause " + v)
            I.update(t=t, clauses=clauses, cleanup=cleanup, rtype=t)
        elif op == 'resume':
            t, v = p.typed_value()
            I.update(t=t, v=v)
        elif op == 'extractvalue':
            t, v = p.typed_value()
            idx = []
            while p.accept(','):
                idx.append(int(p.next()[1]))
            rt = t
            for i in idx:
                r = self.E.resolve(rt)
                rt = r[1][i] if r[0] == 'struct' else r[2]
            I.update(t=t, v=v, idx=idx, rtype=rt)
        elif op == 'insertvalue':
            t, v = p.typed_value()
            p.expect(',')
            et, ev = p.typed_value()
            idx = []
            while p.accept(','):
                idx.append(int(p.next()[1]))
            I.update(t=t, v=v, et=et, ev=ev, idx=idx, rtype=t)
        elif op == 'unreachable':
            pass
        elif op == 'atomicrmw':
            p.skip_attrs()
            rop = p.next()[1]
            pt, ptr = p.typed_value()
            p.expect(',')
            t, v = p.typed_value()
            I.update(rop=rop, ptr=ptr, t=t, v=v, rtype=t)
        elif op == 'cmpxchg':
            p.skip_attrs()
            if p.peek()[1] == 'weak':
                p.next()
            pt, ptr = p.typed_value()
            p.expect(',')
            t, c = p.typed_value()
            p.expect(',')
            t2, n = p.typed_value()
            I.update(ptr=ptr, t=t, c=c, n=n, rtype=('struct', (t, INT(1)), False))
        elif op == 'fence':
            pass
        elif op == 'freeze':
            t, v = p.typed_value()
            I.update(t=t, v=v, rtype=t)
        else:
            raise Unsupported("instruction %s: %s" % (op, line.strip()[:100]))
        return I

    # ------------------------------------------------------------ emit
    def goto(self, target):
        """emit phi copies for edge cur_block->target, then goto"""
        ph = self.phis.get(target, [])
        out = []
        if ph:
            tmps = []
            for i in ph:
                v = None
                for (val, b) in i['inc']:
                    if b == self.cur_block:
                        v = val
                        break
                if v is None:
                    raise Unsupported("phi without incoming for %s in %s" % (self.cur_block, self.f.name))
                if len(ph) == 1:
                    out.append('%s = %s;' % (self.lname(i['dest']), self.val(i['t'], v)))
                else:
                    t = self.tmp(self.E.ctype(i['t']))
                    out.append('%s = %s;' % (t, self.val(i['t'], v)))
                    tmps.append((i['dest'], t))
            for d, t in tmps:
                out.append('%s = %s;' % (self.lname(d), t))
        out.append('goto %s;' % self.label(target))
        return ' '.join(out)

    def emit_ins(self, I):
        E = self.E
        op = I['op']
        d = I['dest']
        c = self.code
        if d is not None and 'rtype' in I and op != 'alloca':
            self.declare(d, I['rtype'])
        D = self.lname(d) if d is not None else None
        if op in BINOPS:
            t = I['t']
            w = E.resolve(t)[1]
            a, b = self.val(t, I['a']), self.val(t, I['b'])
            fl = I['flags']
            # nsw/nuw overflow makes the result poison, not immediate UB, and LLVM speculates such
            # instructions past the checks that guard them in the source; asserting at the instruction
            # raised false alarms (int.cc unary minus), so the flags are ignored (DESIGN 0.6)
            if False and op in ('add', 'sub', 'mul') and w >= 8 and w in (8, 16, 32, 64):
                if 'nsw' in fl:
                    sa, sb = E.sx(w, a), E.sx(w, b)
                    c.append('VP_UB(!VP_S%s_OVF(%d, %s, %s), "UB: signed overflow in %s nsw");' % (op.upper(), w, sa, sb, op))
                if 'nuw' in fl:
                    c.append('VP_UB(!VP_U%s_OVF(%d, %s, %s), "UB: unsigned overflow in %s nuw");' % (op.upper(), w, a, b, op))
            pt = E.uprom(w)
            if op == 'xor' and w == 1 and I['a'][0] == 'local' and I['b'] == ('int', 1) \
                    and I['a'][1] in self.icmp_here and self.icmp_here[I['a'][1]][0] == self.cur_block:
                NEG = {'eq': 'ne', 'ne': 'eq', 'ult': 'uge', 'uge': 'ult', 'ugt': 'ule', 'ule': 'ugt',
                       'slt': 'sge', 'sge': 'slt', 'sgt': 'sle', 'sle': 'sgt'}
                pr, tt, aa, bb = self.icmp_here[I['a'][1]][2]
                self.icmp_here[d] = (self.cur_block, E.icmp_expr(NEG[pr], tt, self.val(tt, aa), self.val(tt, bb)), (NEG[pr], tt, aa, bb))
            if op == 'sub' and w == 64 and I['a'][0] == 'local' and I['b'][0] == 'local' \
                    and I['a'][1] in self.p2i and I['b'][1] in self.p2i:
                # pointer difference: keep it a pointer operation so that symbolic execution folds it
                c.append('%s = VP_PTRDIFF(%s, %s);' % (D, self.p2i[I['a'][1]], self.p2i[I['b'][1]]))
            elif op == 'mul' and w == 64 and I['a'][0] == 'local' and I['b'][0] == 'local':
                c.append('%s = (uint64_t)vp_mul64x64(%s, %s);' % (D, a, b))
            elif op == 'mul' and w == 128 and I['a'][0] == 'local' and I['b'][0] == 'local' \
                    and I['a'][1] in self.zext64 and I['b'][1] in self.zext64:
                c.append('%s = vp_mul64x64(%s, %s);' % (D, self.zext64[I['a'][1]], self.zext64[I['b'][1]]))
            else:
                c.append('%s = %s;' % (D, E.mask(w, '(%s)%s %s (%s)%s' % (pt, a, BINOPS[op], pt, b))))
        elif op in ('shl', 'lshr', 'ashr'):
            t = I['t']
            w = E.resolve(t)[1]
            a, b = self.val(t, I['a']), self.val(t, I['b'])
            if I['dest'] not in self.spec_shift:
                c.append('VP_UB((uint64_t)%s < %d, "UB: shift amount >= width");' % (b, w))
            elif I['b'][0] == 'local':
                b = '(%s & %d)' % (b, w - 1)      # any value will do: the result is poison and only feeds select arms
            pt = E.uprom(w)
            if op == 'shl':
                c.append('%s = %s;' % (D, E.mask(w, '(%s)%s << %s' % (pt, a, b))))
            elif op == 'lshr':
                c.append('%s = %s;' % (D, E.mask(w, '(%s)%s >> %s' % (pt, a, b))))
            else:
                c.append('%s = %s;' % (D, E.mask(w, '%s >> %s' % (E.sx(w, a), b))))
        elif op in ('udiv', 'urem', 'sdiv', 'srem'):
            t = I['t']
            w = E.resolve(t)[1]
            a, b = self.val(t, I['a']), self.val(t, I['b'])
            c.append('VP_UB(%s != 0, "UB: division by zero");' % b)
            cop = '/' if op.endswith('div') else '%'
            if op[0] == 'u' and w == 64 and I['a'][0] == 'local' and I['b'][0] == 'local':
                c.append('%s = vp_%s64(%s, %s);' % (D, op, a, b))
            elif op[0] == 'u':
                pt = E.uprom(w)
                c.append('%s = %s;' % (D, E.mask(w, '(%s)%s %s (%s)%s' % (pt, a, cop, pt, b))))
            else:
                sa, sb = E.sx(w, a), E.sx(w, b)
                c.append('VP_UB(!(%s == %s && %s == -1), "UB: signed division overflow");' % (a, E.int_lit(t, 1 << (w - 1)), sb))
                c.append('%s = %s;' % (D, E.mask(w, '%s %s %s' % (sa, cop, sb))))
        elif op == 'icmp':
            ex = E.icmp_expr(I['pred'], I['t'], self.val(I['t'], I['a']), self.val(I['t'], I['b']))
            c.append('%s = %s;' % (D, ex))
            # remembered so that a branch in the same block can test the comparison itself
            # (CBMC filters pointer value sets on `if (p != NULL)' but not on a boolean temporary)
            self.icmp_here[d] = (self.cur_block, ex, (I['pred'], I['t'], I['a'], I['b']))
        elif op in ('zext', 'trunc'):
            w2 = E.resolve(I['rtype'])[1]
            c.append('%s = %s;' % (D, E.mask(w2, self.val(I['t'], I['a']))))
            if op == 'zext' and w2 == 128 and E.resolve(I['t'])[1] == 64:
                self.zext64[d] = self.val(I['t'], I['a'])
        elif op == 'sext':
            w = E.resolve(I['t'])[1]
            w2 = E.resolve(I['rtype'])[1]
            c.append('%s = %s;' % (D, E.mask(w2, '(%s)%s' % (E.sint_ctype(w2), E.sx(w, self.val(I['t'], I['a']))))))
        elif op in ('bitcast', 'addrspacecast'):
            st, dt = E.resolve(I['t']), E.resolve(I['rtype'])
            if st[0] == 'ptr' and dt[0] == 'ptr':
                c.append('%s = (%s)%s;' % (D, E.ctype(I['rtype']), self.val(I['t'], I['a'])))
                if I['a'][0] == 'local':
                    self.bitcast_src[d] = (I['t'], I['a'][1])
                    if I['a'][1] in self.nonnull:
                        self.nonnull.add(d)
                else:
                    self.nonnull.add(d)
            elif st[0] == 'int' and dt[0] == 'int':
                c.append('%s = %s;' % (D, self.val(I['t'], I['a'])))
            else:
                raise Unsupported("bitcast %r -> %r" % (st, dt))
        elif op == 'inttoptr':
            c.append('%s = (%s)(uintptr_t)%s;' % (D, E.ctype(I['rtype']), self.val(I['t'], I['a'])))
        elif op == 'ptrtoint':
            w2 = E.resolve(I['rtype'])[1]
            c.append('%s = %s;' % (D, E.mask(w2, 'VP_PTR2INT(%s)' % self.val(I['t'], I['a']))))
            if w2 == 64:
                self.p2i[d] = self.val(I['t'], I['a'])
        elif op == 'select':
            c.append('%s = %s ? %s : %s;' % (D, self.val(INT(1), I['c']), self.val(I['t'], I['a']), self.val(I['t'], I['b'])))
        elif op == 'freeze':
            c.append('%s = %s;' % (D, self.val(I['t'], I['v'])))
        elif op == 'alloca':
            t = I['t']
            self.types[d] = PTR(t)
            self.nonnull.add(d)
            st = '%s_mem' % D
            if I['cnt'] is None or (I['cnt'][0] == 'int'):
                n = 1 if I['cnt'] is None else I['cnt'][1]
                if n == 1:
                    self.decls.append('  %s %s;' % (E.ctype(t), st))
                    self.decls.append('  %s %s = &%s;' % (E.ctype(PTR(t)), D, st))
                else:
                    self.decls.append('  %s %s[%d];' % (E.ctype(t), st, n))
                    self.decls.append('  %s %s = &%s[0];' % (E.ctype(PTR(t)), D, st))
            else:
                # variable-length array: heap object of the requested size (never released; the stacksave /
                # stackrestore pair around it is a no-op here)
                self.decls.append('  %s %s;' % (E.ctype(PTR(t)), D))
                cnt = self.val(I.get('cnt_t') or INT(64), I['cnt'])
                c.append('%s = (%s)malloc(sizeof(%s) * (size_t)(%s));' % (D, E.ctype(PTR(t)), E.ctype(t), cnt))
                c.append('VP_ASSUME(%s != 0);' % D)
        elif op == 'load':
            self.nn(I['a'])
            c.append('%s = *%s;' % (D, self.val(I['pt'], I['a'])))
            if I['t'] == INT(64) and self.ptr_shaped(I['a']):
                # clang copies 8-byte pointer wrappers (unique_ptr, tuple<T*>) as i64: keep the pointer
                sh = D + '_p'
                self.decls.append('  void *%s;' % sh)
                c.append('%s = *(void**)%s;' % (sh, self.val(I['pt'], I['a'])))
                self.ptrshadow[d] = sh
            a = I['a']
            if a[0] == 'local':
                lt = E.resolve(I['t'])
                if a[1] in self.bitcast_src and lt[0] == 'ptr' and E.resolve(lt[1])[0] == 'ptr' \
                        and E.resolve(E.resolve(lt[1])[1])[0] == 'func':
                    st, sn = self.bitcast_src[a[1]]
                    rst = st
                    cls = None
                    if rst[0] == 'ptr' and rst[1][0] == 'named':
                        cls = re.sub(r'\.\d+$', '', re.sub(r'^(class|struct)\.', '', rst[1][1]))
                        cls = re.sub(r'^\(anonymous namespace\)::', '', cls)
                    self.vt_of[d] = cls
                elif a[1] in self.slot_of:
                    self.fp_of[d] = self.slot_of[a[1]]
                elif a[1] in self.vt_of and lt[0] == 'ptr' and E.resolve(lt[1])[0] == 'func':
                    self.fp_of[d] = (self.vt_of[a[1]], 0)
        elif op == 'store':
            self.nn(I['b'])
            if I['t'] == INT(64) and I['a'][0] == 'local' and I['a'][1] in self.ptrshadow and self.ptr_shaped(I['b']):
                c.append('*(void**)%s = %s;' % (self.val(I['pt'], I['b']), self.ptrshadow[I['a'][1]]))
            else:
                c.append('*%s = %s;' % (self.val(I['pt'], I['b']), self.val(I['t'], I['a'])))
        elif op == 'getelementptr':
            # constant non-zero offset or member access: the base must be a real object;
            # plain pointer arithmetic with a variable index may legally be null + 0
            nonzero = any(iv[0] == 'int' and iv[1] != 0 for it, iv in I['idx'])
            if d in self.spec_vals:
                pass        # speculated address computation (clang hoisted `it + 1' above the test of `it'): not a dereference
            elif nonzero or len(I['idx']) > 1:
                self.nn(I['base'])
                self.nonnull.add(d)
            elif I['base'][0] == 'local' and I['base'][1] in self.nonnull:
                self.nonnull.add(d)
            base = self.val(I['pt'], I['base'])
            idxs = [(it, self.val(it, iv), iv) for it, iv in I['idx']]
            e, rt = E.gep_expr(I['bt'], base, idxs)
            self.declare(d, PTR(rt))
            c.append('%s = %s;' % (D, e))
            if I['base'][0] == 'local' and I['base'][1] in self.vt_of and len(I['idx']) == 1 and I['idx'][0][1][0] == 'int':
                self.slot_of[d] = (self.vt_of[I['base'][1]], I['idx'][0][1][1])
        elif op == 'br':
            if I['cond'] is None:
                c.append(self.goto(I['t1']))
            else:
                cond = self.val(INT(1), I['cond'])
                if I['cond'][0] == 'local' and I['cond'][1] in self.icmp_here and self.icmp_here[I['cond'][1]][0] == self.cur_block:
                    cond = self.icmp_here[I['cond'][1]][1]
                c.append('if (%s) { %s } else { %s }' % (cond, self.goto(I['t1']), self.goto(I['t2'])))
        elif op == 'switch':
            v = self.val(I['t'], I['v'])
            parts = []
            for cv, tgt in I['cases']:
                parts.append('if (%s == %s) { %s }' % (v, E.const_expr(I['t'], cv), self.goto(tgt)))
            parts.append('{ %s }' % self.goto(I['dflt']))
            c.append(' else '.join(parts))
        elif op == 'ret':
            if I['v'] is None:
                c.append('return;')
            else:
                c.append('return %s;' % self.val(I['t'], I['v']))
        elif op == 'phi':
            pass
        elif op in ('call', 'invoke'):
            self.emit_call(I)
        elif op == 'landingpad':
            self.emit_landingpad(I)
        elif op == 'resume':
            c.append('__vp_exc.pending = 1;')
            c.append(self.ret_zero())
        elif op == 'extractvalue':
            e = self.val(I['t'], I['v'])
            rt = I['t']
            for i in I['idx']:
                r = E.resolve(rt)
                if r[0] == 'struct':
                    e = '%s.f%d' % (e, i)
                    rt = r[1][i]
                else:
                    e = '%s[%d]' % (e, i)
                    rt = r[2]
            c.append('%s = %s;' % (D, e))
        elif op == 'insertvalue':
            c.append('%s = %s;' % (D, self.val(I['t'], I['v'])))
            e = D
            rt = I['t']
            for i in I['idx']:
                r = E.resolve(rt)
                if r[0] == 'struct':
                    e = '%s.f%d' % (e, i)
                    rt = r[1][i]
                else:
                    e = '%s[%d]' % (e, i)
                    rt = r[2]
            c.append('%s = %s;' % (e, self.val(I['et'], I['ev'])))
        elif op == 'unreachable':
            c.append('VP_UB(0, "UB: unreachable reached");')
            c.append('VP_ASSUME(0);')
            c.append(self.ret_zero())
        elif op == 'atomicrmw':
            ptr = self.val(PTR(I['t']), I['ptr'])
            v = self.val(I['t'], I['v'])
            w = E.resolve(I['t'])[1]
            c.append('%s = *%s;' % (D, ptr))
            rop = I['rop']
            if rop in ('add', 'sub', 'and', 'or', 'xor'):
                c.append('*%s = %s;' % (ptr, E.mask(w, '%s %s %s' % (D, BINOPS[rop], v))))
            elif rop == 'xchg':
                c.append('*%s = %s;' % (ptr, v))
            else:
                raise Unsupported("atomicrmw " + rop)
        elif op == 'cmpxchg':
            ptr = self.val(PTR(I['t']), I['ptr'])
            c.append('%s.f0 = *%s; %s.f1 = (%s.f0 == %s); if (%s.f1) *%s = %s;' % (
                D, ptr, D, D, self.val(I['t'], I['c']), D, ptr, self.val(I['t'], I['n'])))
        elif op == 'fence':
            pass
        else:
            raise Unsupported("emit " + op)

    def ptr_shaped(self, v):
        """is v (an i64*) a bitcast of a pointer to an 8-byte object whose first leaf is a pointer?"""
        if v[0] != 'local' or v[1] not in self.bitcast_src:
            return False
        st = self.E.resolve(self.bitcast_src[v[1]][0])
        if st[0] != 'ptr':
            return False
        t = st[1]
        for _ in range(12):
            rt = self.E.resolve(t)
            if rt[0] == 'ptr':
                return True
            if rt[0] == 'struct' and rt[1]:
                t = rt[1][0]
            elif rt[0] == 'arr':
                t = rt[2]
            else:
                return False
        return False

    def nn(self, v):
        """explicit null test before a dereference through SSA pointer v: makes the UB an assertion
        and lets CBMC drop NULL (and with it the `invalid object') from v's value set on the
        continuing path, which keeps loop bounds and vptrs concrete after path merges"""
        if v[0] != 'local' or v[1] in self.nonnull:
            return
        # the symbol it was cast from first, then the symbol itself
        n = v[1]
        chain = [n]
        while n in self.bitcast_src:
            n = self.bitcast_src[n][1]
            if n in self.nonnull:
                break
            chain.append(n)
        for x in reversed(chain):
            self.code.append('VP_NONNULL(%s);' % self.lname(x))
            self.nonnull_block.add((self.cur_block, x))

    def ret_zero(self):
        if self.f.ret[0] == 'void':
            return 'return;'
        return 'return %s;' % self.E.zero(self.f.ret)

    # ------------------------------------------------------------ calls
    def strip_cast(self, v):
        """callee given as bitcast (T @f to U) -> @f"""
        while v[0] == 'cexpr' and v[1] == 'bitcast':
            v = v[3]
        return v

    def emit_call(self, I):
        E = self.E
        c = self.code
        d = I['dest']
        D = self.lname(d) if d is not None else None
        callee = self.strip_cast(I['callee'])
        args = I['args']
        rt = I['rt']
        nounwind_site = any('nounwind' in self.mod.attrgroups.get(g, ()) for g in I['groups'])
        direct = callee[0] == 'global'
        name = callee[1] if direct else None
        if direct and name in self.mod.aliases and self.mod.aliases[name][1][0] == 'global':
            name = self.mod.aliases[name][1][1]
        may_throw = not nounwind_site
        noreturn = False
        if direct:
            if name.startswith('llvm.'):
                self.emit_intrinsic(I, name)
                if I['op'] == 'invoke':
                    c.append(self.goto(I['normal']))
                return
            if name in ('vp_assert', 'vp_assume', 'vp_witness', 'vp_cover'):
                self.emit_vp_primitive(I, name)
                if I['op'] == 'invoke':
                    c.append(self.goto(I['normal']))
                return
            if name in ('_Znwm', '_Znam') and d is not None and E.WORDBUF_RX.search(self.f.name) \
                    and (d not in self.new_type or E.resolve(self.new_type[d]) == INT(8)):
                c.append('%s = %s(%s);' % (D, E.wordbuf_helper(), self.val(args[0][0], args[0][1])))
                if I['op'] == 'invoke':
                    c.append(self.goto(I['normal']))
                return
            if name in ('_Znwm', '_Znam') and d in self.new_type:
                et = self.new_type[d]
                sz = E.sizeof(et)
                a0 = args[0]
                ok = sz > 0 and (a0[1][0] != 'int' or a0[1][1] % sz == 0)
                if ok and E.resolve(et) == INT(8) and E.WORDBUF_RX.search(self.f.name):
                    c.append('%s = %s(%s);' % (D, E.wordbuf_helper(), self.val(a0[0], a0[1])))
                    if I['op'] == 'invoke':
                        c.append(self.goto(I['normal']))
                    return
                if ok:
                    helper = E.new_helper(et)
                    c.append('%s = (uint8_t*)%s(%s);' % (D, helper, self.val(a0[0], a0[1])))
                    if I['op'] == 'invoke':
                        c.append(self.goto(I['normal']))
                    return
            f = self.mod.funcs.get(name)
            if f is None:
                raise Unsupported("call to unknown function " + name)
            if f.nounwind:
                may_throw = False
            noreturn = f.noreturn
            ext = (not f.isdef) or name in E.overrides
            E.note_func_use(name)
            cargs = []
            for i, (t, a, pa) in enumerate(args):
                e = self.val(t, a)
                if i < len(f.params):
                    pt = f.params[i][0]
                    if ext and E.erase:
                        if E.resolve(pt)[0] == 'ptr':
                            e = '(void*)%s' % e
                    elif pt != t:
                        e = '(%s)%s' % (E.ctype(pt), e)
                cargs.append(e)
            call = '%s(%s)' % (E.fname(name), ', '.join(cargs))
            if rt[0] != 'void' and d is not None:
                call = '(%s)%s' % (E.ctype(rt), call)
        else:
            # indirect
            fty = ('func', rt, tuple(t for (t, a, pa) in args), False)
            sh = E.shape(rt, [t for (t, a, pa) in args])
            vcls, vidx = None, None
            if callee[0] == 'local' and callee[1] in self.fp_of:
                vcls, vidx = self.fp_of[callee[1]]
            key = (sh, vcls, vidx)
            if key not in E.dispatch_needed:
                E.dispatch_needed[key] = ('vp_dispatch_%d' % len(E.dispatch_needed), fty)
            dname, dfty = E.dispatch_needed[key]
            fp = self.val(PTR(fty), callee)
            cargs = ['(void*)%s' % fp]
            for (t, a, pa), pt in zip(args, dfty[2]):
                e = self.val(t, a)
                if t != pt:
                    e = '(%s)%s' % (E.ctype(pt), e)
                cargs.append(e)
            call = '%s(%s)' % (dname, ', '.join(cargs))
            if rt[0] != 'void' and d is not None and dfty[1] != rt:
                call = '(%s)%s' % (E.ctype(rt), call)
        if rt[0] != 'void' and d is not None:
            c.append('%s = %s;' % (D, call))
        else:
            c.append('%s;' % call)
        if I['op'] == 'invoke':
            c.append('if (__vp_exc.pending) { %s } else { %s }' % (self.goto(I['unwind']), self.goto(I['normal'])))
        else:
            if may_throw:
                c.append('if (__vp_exc.pending) %s' % self.ret_zero())
            if noreturn:
                c.append('VP_ASSUME(__vp_exc.pending); ' + self.ret_zero())

    def const_cstring(self, v):
        """resolve a constant i8* operand to the C string it points to"""
        while v[0] == 'cexpr' and v[1] in ('gep', 'bitcast'):
            v = v[3][0][1] if v[1] == 'gep' else v[3]
        if v[0] == 'global' and v[1] in self.mod.globals:
            init = self.mod.globals[v[1]]['init']
            if init and init[0] == 'cstr':
                return init[1].rstrip(b'\0').decode('latin-1')
            if init and init[0] == 'zero':
                return ''
        raise Unsupported("vp primitive needs a string literal id, got %r" % (v,))

    def emit_vp_primitive(self, I, name):
        c = self.code
        a = I['args']
        def esc(s):
            return s.replace('\\', '\\\\').replace('"', '\\"')
        if name == 'vp_assume':
            c.append('VP_ASSUME(%s);' % self.val(a[0][0], a[0][1]))
        elif name == 'vp_assert':
            c.append('VP_ASSERT(%s, "P: %s");' % (self.val(a[0][0], a[0][1]), esc(self.const_cstring(a[1][1]))))
        elif name == 'vp_witness':
            c.append('VP_WITNESS("%s");' % esc(self.const_cstring(a[0][1])))
        elif name == 'vp_cover':
            c.append('VP_COVER(%s, "%s");' % (self.val(a[0][0], a[0][1]), esc(self.const_cstring(a[1][1]))))

    def elem_type_behind(self, v):
        """for an i8* SSA value produced by bitcast T* -> i8*, return T"""
        if v[0] == 'local' and v[1] in self.bitcast_src:
            st, sn = self.bitcast_src[v[1]]
            rt = self.E.resolve(st)
            if rt[0] == 'ptr':
                return rt[1]
        return None

    def emit_intrinsic(self, I, name):
        E = self.E
        c = self.code
        d = I['dest']
        D = self.lname(d) if d is not None else None
        a = I['args']
        def av(i):
            return self.val(a[i][0], a[i][1])
        base = name.split('.')
        kind = base[1]
        if kind in ('lifetime', 'dbg', 'experimental', 'invariant', 'donothing', 'prefetch', 'var'):
            return
        if kind == 'stacksave':
            c.append('%s = 0;' % D)
            return
        if kind == 'stackrestore':
            return
        if kind == 'assume':
            c.append('VP_UB(%s, "UB: llvm.assume violated");' % av(0))
            return
        if kind == 'expect':
            c.append('%s = %s;' % (D, av(0)))
            return
        if kind == 'trap':
            c.append('VP_ASSERT(0, "llvm.trap reached"); VP_ASSUME(0);')
            return
        if kind in ('memcpy', 'memmove'):
            n = a[2][1]
            et1 = self.elem_type_behind(a[0][1])
            et2 = self.elem_type_behind(a[1][1])
            et = None
            if et1 is not None and et2 is not None and E.sizeof(et1) == E.sizeof(et2) and E.resolve(et1)[0] not in ('func', 'opaque', 'void'):
                # prefer the struct-y one
                et = et1 if E.resolve(et1)[0] in ('struct', 'arr') or E.resolve(et2)[0] not in ('struct', 'arr') else et2
            elif et1 is not None and E.resolve(et1)[0] not in ('func', 'opaque', 'void', 'int'):
                et = et1
            elif et2 is not None and E.resolve(et2)[0] not in ('func', 'opaque', 'void', 'int'):
                et = et2
            if et is not None and E.sizeof(et) > 0:
                sz = E.sizeof(et)
                ct = E.ctype(et)
                if n[0] == 'int' and n[1] == sz:
                    c.append('{ %s vp_t = *(%s*)%s; *(%s*)%s = vp_t; }' % (ct, ct, av(1), ct, av(0)))
                    return
                if n[0] == 'int' and n[1] % sz == 0 and n[1] // sz <= 64:
                    k = n[1] // sz
                    if kind == 'memcpy':
                        for j in range(k):
                            c.append('((%s*)%s)[%d] = ((%s*)%s)[%d];' % (ct, av(0), j, ct, av(1), j))
                        return
                if n[0] != 'int':
                    c.append('VP_MEM%s_ELEMS(%s, %s, %s, %s, %d);' % ('CPY' if kind == 'memcpy' else 'MOVE', ct, av(0), av(1), av(2), sz))
                    return
            c.append('vp_%s(%s, %s, %s);' % (kind, av(0), av(1), av(2)))
            return
        if kind == 'memset':
            n = a[2][1]
            et = self.elem_type_behind(a[0][1])
            if et is not None and a[1][1] == ('int', 0) and n[0] == 'int' and E.resolve(et)[0] in ('struct', 'arr', 'int', 'ptr') \
               and E.sizeof(et) > 0 and n[1] % E.sizeof(et) == 0 and n[1] // E.sizeof(et) <= 16:
                ct = E.ctype(et)
                for j in range(n[1] // E.sizeof(et)):
                    c.append('((%s*)%s)[%d] = %s;' % (ct, av(0), j, E.zero(et)))
                return
            c.append('vp_memset(%s, %s, %s);' % (av(0), av(1), av(2)))
            return
        if kind in ('umul', 'uadd', 'usub', 'smul', 'sadd', 'ssub') and base[2] == 'with':
            t = a[0][0]
            w = E.resolve(t)[1]
            self_t = I['rt']
            x, y = av(0), av(1)
            opn = kind[1:]
            cop = {'mul': '*', 'add': '+', 'sub': '-'}[opn]
            if kind == 'umul' and w == 64:
                # one 64x64->128 product serves both the low word and the overflow flag
                t = self.tmp('vp_u128')
                c.append('%s = vp_mul64x64(%s, %s);' % (t, x, y))
                c.append('%s.f0 = (uint64_t)%s;' % (D, t))
                c.append('%s.f1 = (%s >> 64) != 0;' % (D, t))
            elif kind[0] == 'u':
                c.append('%s.f0 = %s;' % (D, E.mask(w, '(%s)%s %s (%s)%s' % (E.uprom(w), x, cop, E.uprom(w), y))))
                c.append('%s.f1 = VP_U%s_OVF(%d, %s, %s);' % (D, opn.upper(), w, x, y))
            else:
                c.append('%s.f0 = %s;' % (D, E.mask(w, '(%s)%s %s (%s)%s' % (E.uprom(w), x, cop, E.uprom(w), y))))
                c.append('%s.f1 = VP_S%s_OVF(%d, %s, %s);' % (D, opn.upper(), w, E.sx(w, x), E.sx(w, y)))
            return
        if kind in ('umax', 'umin', 'smax', 'smin'):
            t = a[0][0]
            w = E.resolve(t)[1]
            x, y = av(0), av(1)
            if kind[0] == 'u':
                cmp_ = '(%s)%s %s (%s)%s' % (E.uprom(w), x, '>' if kind.endswith('max') else '<', E.uprom(w), y)
            else:
                cmp_ = '%s %s %s' % (E.sx(w, x), '>' if kind.endswith('max') else '<', E.sx(w, y))
            c.append('%s = (%s) ? %s : %s;' % (D, cmp_, x, y))
            return
        if kind == 'abs':
            t = a[0][0]
            w = E.resolve(t)[1]
            c.append('%s = (%s < 0) ? %s : %s;' % (D, E.sx(w, av(0)), E.mask(w, '-(%s)%s' % (E.uprom(w), av(0))), av(0)))
            return
        if kind == 'eh' and base[2] == 'typeid':
            ti = a[0][1]
            c.append('%s = vp_typeid_for((void*)%s);' % (D, self.val(a[0][0], ti)))
            return
        if kind in ('ctlz', 'cttz', 'ctpop', 'bswap'):
            t = a[0][0]
            w = E.resolve(t)[1]
            c.append('%s = %s;' % (D, E.mask(w, 'vp_%s%d(%s)' % (kind, w, av(0)))))
            return
        if kind == 'objectsize':
            c.append('%s = %s;' % (D, E.int_lit(I['rt'], -1)))
            return
        if kind in ('fshl', 'fshr'):
            t = a[0][0]
            w = E.resolve(t)[1]
            c.append('%s = %s;' % (D, E.mask(w, 'vp_%s%d(%s, %s, %s)' % (kind, w, av(0), av(1), av(2)))))
            return
        if kind in ('usub', 'uadd') and base[2] == 'sat':
            t = a[0][0]
            w = E.resolve(t)[1]
            x, y = av(0), av(1)
            if kind == 'usub':
                c.append('%s = ((%s)%s > (%s)%s) ? %s : 0;' % (D, E.uprom(w), x, E.uprom(w), y, E.mask(w, '%s - %s' % (x, y))))
            else:
                c.append('%s = VP_UADD_OVF(%d, %s, %s) ? %s : %s;' % (D, w, x, y, E.int_lit(t, -1), E.mask(w, '%s + %s' % (x, y))))
            return
        raise Unsupported("intrinsic " + name)

    def emit_landingpad(self, I):
        """selector: typeid of first matching catch clause; 0 for cleanup; if nothing
        matches and there is no cleanup the exception keeps propagating"""
        E = self.E
        c = self.code
        D = self.lname(I['dest'])
        c.append('%s.f0 = (uint8_t*)__vp_exc.object;' % D)
        c.append('__vp_exc.pending = 0;')
        parts = []
        for kind, cv in I['clauses']:
            if kind == 'filter':
                # empty filter (noexcept(false)-style throw()) : anything matches -> unexpected
                continue
            if cv[0] == 'null':
                parts.append(('1', '1'))
            else:
                ti = self.val(I8P, cv)
                parts.append(('vp_exc_matches((void*)%s)' % ti, 'vp_typeid_for((void*)%s)' % ti))
        s = ''
        for cond, sel in parts:
            s += 'if (%s) %s.f1 = (uint32_t)%s; else ' % (cond, D, sel)
        if I['cleanup'] or any(k == 'filter' for k, _ in I['clauses']):
            s += '%s.f1 = 0;' % D
        else:
            s += '{ __vp_exc.pending = 1; %s }' % self.ret_zero()
        c.append(s)

def translate(text, opts):
    mod = parse_module(text)
    E = Emitter(mod, opts)
    E.dispatch_needed = {}
    E.new_helpers = {}
    E.pending_structs = []
    E.addr_taken = scan_addr_taken(mod, text)
    E.build_cha()
    E.trapped = []
    E.emptied = []
    E.auto_defined = []
    src = E.emit()
    info = dict(
        functions=[n for n in mod.forder if mod.funcs[n].isdef and n not in E.overrides and not n.startswith('llvm.')],
        externals=sorted(E.used_externals),
        addr_taken=sorted(E.addr_taken),
        trapped=E.trapped,
        emptied=E.emptied,
        auto_defined_globals=E.auto_defined,
    )
    return src, info

def main():
    import argparse
    ap = argparse.ArgumentParser()
    ap.add_argument('input')
    ap.add_argument('-o', '--output', required=True)
    ap.add_argument('--override', action='append', default=[])
    ap.add_argument('--override-file')
    ap.add_argument('--no-erase-sigs', action='store_true')
    ap.add_argument('--info')
    ap.add_argument('--candidate', action='append', default=[])
    ap.add_argument('--trap', action='append', default=[])
    ap.add_argument('--empty', action='append', default=[])
    ap.add_argument('--cha-loose', action='store_true')
    a = ap.parse_args()
    ov = list(a.override)
    if a.override_file:
        ov += [l.strip() for l in open(a.override_file) if l.strip() and not l.startswith('#')]
    text = open(a.input).read()
    try:
        cands = []
        for c in a.candidate:
            n, r, ps = c.split(':')
            cands.append((n, r, [x for x in ps.split(',') if x]))
        src, info = translate(text, dict(override=ov, erase_sigs=not a.no_erase_sigs, candidates=cands,
                                         traps=[re.compile(x) for x in a.trap],
                                         empties=[re.compile(x) for x in a.empty], cha_loose=a.cha_loose))
    except Unsupported as e:
        sys.stderr.write("ll2c: UNSUPPORTED: %s\n" % e)
        sys.exit(3)
    open(a.output, 'w').write(src)
    if a.info:
        json.dump(info, open(a.info, 'w'), indent=1)

if __name__ == '__main__':
    main()
