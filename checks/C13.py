"""C13 -- memory safety / state lifecycle (DESIGN 0.3): layout kernel + abandonment of result sets with leak check"""
import os
import vpcheck as V
import importlib.util
_spec = importlib.util.spec_from_file_location('C01', os.path.join(V.VERIF, 'checks', 'C01.py'))
C01 = importlib.util.module_from_spec(_spec); _spec.loader.exec_module(C01)

LEVEL_TEXT = ("bounded symbolic model checking: (1) layout::reserve/add_union for all reservation series within the bound -- aligned, pairwise "
              "disjoint, inside size(); (2) the real ALT / OR / if-then-else / nested-ALT operator graphs of C01 with the result set abandoned "
              "after every number of pulls 0..4 and torn down, under CBMC's pointer, bounds, use-after-free and --memory-leak-check "
              "instrumentation plus the translator's UB assertions (null dereference, division by zero, shift, unreachable)")

ENTRIES = ['c13_alt2', 'c13_or2', 'c13_ifelse', 'c13_alt_in_alt']
BASE = {'c13_alt2': 'c01_alt2', 'c13_or2': 'c01_or2', 'c13_ifelse': 'c01_ifelse', 'c13_alt_in_alt': 'c01_alt_in_alt'}

BUILT = ['c13_built_ifelse', 'c13_built_alt2', 'c13_built_or2']
BUILT_BASE = {'c13_built_ifelse': 'c01_ifelse', 'c13_built_alt2': 'c01_alt2', 'c13_built_or2': 'c01_or2'}

def modules(ctx):
    T, MC = 2, 1
    ml = V.Module(ctx, 'c13l', ['layout.cc'], 'c13.cc', ['c13_layout_reserve', 'c13_layout_union'], native_libs=('-ldl',))
    mo = V.Module(ctx, 'c13o', C01.CORE_TUS, 'c01.cc', ENTRIES, defs=('VP_T=%d' % T, 'VP_MAXC=%d' % MC), native_libs=('-ldl',),
                  native_tus=V.ALL_CORE[:-3] if False else C01.ALL_CORE, empties=('_ZN10value_type13register_type',))
    mg = V.Module(ctx, 'c13g', C01.CORE_TUS, 'c13b.cc', ['c13_guard_ok', 'c13_guard_throw'], native_libs=('-ldl',), native_tus=C01.ALL_CORE,
                  empties=('_ZN10value_type13register_type',))
    mb = V.Module(ctx, 'c13b', C01.CORE_TUS + ['build.cc', 'bindings.cc', 'tree.cc', 'tree_cr.cc'], 'c13c.cc', BUILT, defs=('VP_T=%d' % T, 'VP_MAXC=%d' % MC),
                  native_libs=('-ldl',), native_tus=C01.ALL_CORE, empties=('_ZN10value_type13register_type',))
    return {'c13l': ml, 'c13o': mo, 'c13g': mg, 'c13b': mb}

def run(ctx):
    mods = modules(ctx)
    T, MC = 2, 1
    ctx.bounds.update(layout='4 reservations, size 1..64, alignment 1..16, start <= 256; 3 alternatives for add_union',
                      abandonment='result set abandoned after 0..4 pulls, every valid control scenario of the C01 harnesses alt2/or2/ifelse/alt_in_alt (T<=2, <=1 result per input)',
                      unwind='library loops 7')
    ctx.assumptions += ['operator new never fails', 'programs that fail to compile (parser/lexer) are outside (DESIGN 7)',
                        'signed-overflow (nsw) flags of the IR are not asserted (DESIGN 0.6)',
                        'CBMC --memory-leak-check tracks one nondeterministically chosen allocation per run']
    jobs = []
    for e, b in (('c13_layout_reserve', '4 reservations'), ('c13_layout_union', '3 alternatives')):
        if ctx.only and e not in ctx.only:
            continue
        jobs.append(lambda e=e, b=b: V.run_entry(ctx, mods['c13l'], e, 8, timeout=600, bounds=b, tv_seeds=2))
    for e in ('c13_guard_ok', 'c13_guard_throw'):
        if ctx.only and e not in ctx.only:
            continue
        jobs.append(lambda e=e: V.run_entry(ctx, mods['c13g'], e, 8, timeout=600, bounds='one sub-expression evaluation, symbolic tokens', object_bits=12,
                                            extra=('--memory-leak-check',), tv_seeds=1))
    chunk = 10
    ents = ENTRIES if ctx.tier != 'quick' else ['c13_alt2', 'c13_or2']
    for e in ents:
        if ctx.only and e not in ctx.only:
            continue
        valid, total = C01.valid_scenarios(BASE[e], T, MC)
        starts = sorted(set((k * 5) - (k * 5) % chunk for k in valid))
        for lo in starts:
            hi = min(total * 5, lo + chunk)
            jobs.append(lambda e=e, lo=lo, hi=hi: V.run_entry(
                ctx, mods['c13o'], e, 7, harness_unwind=chunk + 20, timeout=900, bounds='scenarios x pulls [%d,%d)' % (lo, hi),
                object_bits=14, cdefs=('VP_LO=%d' % lo, 'VP_HI=%d' % hi), label='%s[%d:%d]' % (e, lo, hi), tv_seeds=0,
                extra=('--memory-leak-check',)))
    # graphs and state layout produced by the real builder (build.cc) for trees of stub builtins
    ctx.bounds['built'] = ('if-then-else / ALT / OR trees built by tree::build_exec; quick: if-then-else, every (input count, epoch split) for 8 result-count vectors (condition yields for none / first / second / both inputs; '
                           'arms yield for both inputs, or then for the first and else for the second); thorough: every valid scenario of all three')
    for e in (BUILT if ctx.tier != 'quick' else ['c13_built_ifelse']):
        if ctx.only and e not in ctx.only:
            continue
        valid, total = C01.valid_scenarios(BUILT_BASE[e], T, MC)
        # scenario = (n, first) + 9 * count vector: one solver run per count vector (chunk of 9, invalid members return at once)
        vectors = sorted(set(k // 9 for k in valid))
        if ctx.tier == 'quick':
            # condition yields for neither / the first / the second / both inputs; arms: both yield for both inputs (60..63), or then for the first and
            # else for the second input only (36..39)
            vectors = [j for j in vectors if 36 <= j <= 39 or 60 <= j <= 63]
        for j in vectors:
            lo, hi = 9 * j, 9 * j + 9
            jobs.append(lambda e=e, lo=lo, hi=hi: V.run_entry(
                ctx, mods['c13b'], e, 8, harness_unwind=80, timeout=900, bounds='scenarios [%d,%d): every (inputs, epoch split) for one result-count vector' % (lo, hi),
                object_bits=14, cdefs=('VP_LO=%d' % lo, 'VP_HI=%d' % hi), label='%s[%d:%d]' % (e, lo, hi), tv_seeds=0))
    V.run_parallel(jobs, workers=int(os.environ.get('VP_JOBS', '15')))

def replay(ctx, js):
    return V.generic_replay(ctx, modules(ctx), js)
