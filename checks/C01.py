"""C01 -- stream semantics: per-operator protocol refinement (DESIGN 6/C01)"""
import vpcheck as V

LEVEL_TEXT = ("bounded symbolic model checking of the real operator classes of op.cc (lowered from clang IR, wired as build.cc "
              "wires them) between protocol stubs: for every input count <=T, every token assignment, every partition of the "
              "inputs into <=E re-feed epochs and every sub-expression behaviour (<=M results per input), the results equal the "
              "documented denotation applied to each input alone")

ALL_CORE = ['bindings.cc', 'build.cc', 'builtin-closure.cc', 'builtin-cmp.cc', 'builtin-cst.cc', 'builtin-shf.cc', 'builtin.cc',
            'constant.cc', 'docstring.cc', 'init.cc', 'int.cc', 'layout.cc', 'op.cc', 'overload.cc', 'pred_result.cc', 'scon.cc',
            'selector.cc', 'stack.cc', 'tree.cc', 'tree_cr.cc', 'value-closure.cc', 'value-cst.cc', 'value-seq.cc',
            'value-str.cc', 'value.cc', 'strip.cc']
CORE_TUS = ['op.cc', 'stack.cc', 'value.cc', 'scon.cc', 'layout.cc', 'value-seq.cc', 'value-cst.cc', 'value-str.cc',
            'constant.cc', 'int.cc', 'overload.cc', 'selector.cc', 'builtin.cc', 'docstring.cc', 'value-closure.cc',
            'builtin-closure.cc', 'pred_result.cc']

ENTRIES = ['c01_alt2', 'c01_or2', 'c01_assert', 'c01_ifelse', 'c01_subx', 'c01_capture', 'c01_alt_in_or', 'c01_alt_in_alt']

def modules(ctx):
    T, E = (2, 2) if ctx.tier == 'quick' else (3, 2)
    m = V.Module(ctx, 'c01', CORE_TUS, 'c01.cc', ENTRIES, defs=('VP_T=%d' % T, 'VP_E=%d' % E), native_libs=('-ldl',), native_tus=ALL_CORE,
                 empties=('_ZN10value_type13register_type',))
    return {'c01': m}

def run(ctx):
    m = modules(ctx)['c01']
    T = 2 if ctx.tier == 'quick' else 3
    ctx.bounds.update(T='<=%d input stacks' % T, E='<=2 re-feed epochs (every partition)', M='<=2 results per input per sub-expression',
                      D='token alphabet of 3 values', unwind=20)
    ctx.assumptions += ['sub-expressions are mapping stubs whose behaviour is an arbitrary function of the top token (S_map)',
                        'upstream is an epoch source: nullptr is persistent until the driver re-feeds (the protocol real drivers follow)',
                        'values are harness tokens (value_tok); ostream is a null sink; operator new never fails']
    jobs = []
    for e in ENTRIES:
        if ctx.only and e not in ctx.only:
            continue
        jobs.append(lambda e=e: V.run_entry(ctx, m, e, 7, harness_unwind=17, timeout=900 if ctx.tier == 'quick' else 3600,
                                            bounds='T<=%d, E<=2, M<=2, D=3' % T, object_bits=14))
    V.run_parallel(jobs)

def replay(ctx, js):
    return V.generic_replay(ctx, modules(ctx), js)
