"""C01 -- stream semantics: per-operator protocol refinement (DESIGN 6/C01)"""
import vpcheck as V

LEVEL_TEXT = ("bounded symbolic model checking of the real operator classes of op.cc (lowered from clang IR, wired as build.cc "
              "wires them) between protocol stubs: for every input count <=T, every token assignment, every partition of the "
              "inputs into <=E re-feed epochs and every sub-expression behaviour (<=M results per input), the results equal the "
              "documented denotation applied to each input alone")

ALL_CORE = ['bindings.cc', 'build.cc', 'builtin-closure.cc', 'builtin-cmp.cc', 'builtin-cst.cc', 'builtin-shf.cc', 'builtin.cc',
            'constant.cc', 'docstring.cc', 'init.cc', 'int.cc', 'layout.cc', 'op.cc', 'overload.cc', 'pred_result.cc', 'scon.cc',
            'selector.cc', 'stack.cc', 'tree.cc', 'tree_cr.cc', 'value-closure.cc', 'value-cst.cc', 'value-seq.cc',
            'value-str.cc', 'value.cc', 'strip.cc']
CORE_TUS = ['op.cc', 'stack.cc', 'value.cc', 'scon.cc', 'layout.cc', 'value-seq.cc', 'value-cst.cc', 'value-str.cc',
            'constant.cc', 'int.cc', 'overload.cc', 'selector.cc', 'builtin.cc', 'docstring.cc', 'value-closure.cc',
            'builtin-closure.cc', 'pred_result.cc']

ENTRIES = ['c01_alt2', 'c01_or2', 'c01_assert', 'c01_ifelse', 'c01_subx', 'c01_subx_mut', 'c01_capture', 'c01_alt_in_or', 'c01_alt_in_alt']

def params(ctx):
    # (T inputs, MAXC results per input in the 1-/2-sub-expression harnesses)
    return (2, 1) if ctx.tier == 'quick' else (2, 2)

def modules(ctx):
    T, MC = params(ctx)
    m = V.Module(ctx, 'c01', CORE_TUS, 'c01.cc', ENTRIES, defs=('VP_T=%d' % T, 'VP_MAXC=%d' % MC), native_libs=('-ldl',),
                 native_tus=ALL_CORE, empties=('_ZN10value_type13register_type',))
    mods = {'c01': m}
    if ctx.tier != 'quick':
        # three inputs for the nested-ALT harnesses (the re-feed livelock needs three)
        mods['c01t3'] = V.Module(ctx, 'c01t3', CORE_TUS, 'c01.cc', ['c01_alt_in_alt', 'c01_alt_in_or', 'c01_alt2'],
                                 defs=('VP_T=3', 'VP_MAXC=1'), native_libs=('-ldl',), native_tus=ALL_CORE,
                                 empties=('_ZN10value_type13register_type',))
    return mods

# scenario digits per entry: list of radices after (n, first); used to enumerate VALID scenario numbers in the driver
def digits(entry, T, MC):
    S = {'c01_alt2': (2, MC), 'c01_or2': (2, MC), 'c01_assert': (1, 2), 'c01_ifelse': (3, 1), 'c01_subx': (1, MC), 'c01_subx_mut': (1, MC),
         'c01_capture': (1, MC), 'c01_alt_in_or': (3, 1), 'c01_alt_in_alt': (3, 1)}[entry]
    return S

def valid_scenarios(entry, T, MC):
    nsub, maxc = digits(entry, T, MC)
    radix = maxc + 1
    out = []
    total = (T + 1) * (T + 1) * radix ** (nsub * T)
    for k in range(total):
        x = k
        n = x % (T + 1); x //= (T + 1)
        first = x % (T + 1); x //= (T + 1)
        ok = first <= n
        for b in range(nsub):
            for i in range(T):
                c = x % radix; x //= radix
                if i >= n and c != 0:
                    ok = False
        if ok:
            out.append(k)
    return out, total

def run(ctx):
    mods = modules(ctx)
    T, MC = params(ctx)
    ctx.bounds.update(T='<=%d input stacks (3 for the nested-ALT harnesses in the thorough tier)' % T, E='2 re-feed epochs (every split)',
                      M='<=%d results per input per sub-expression (<=1 in the 3-sub-expression harnesses)' % MC,
                      tokens='symbolic payload tokens over an alphabet of 3', unwind='library loops 7',
                      scenarios='control configurations are digits of a scenario number; every valid scenario number is covered by one solver run over a small chunk')
    ctx.assumptions += ['sub-expressions are mapping stubs (S_map): per input a scenario-determined number of results with symbolic tokens',
                        'upstream is an epoch source: nullptr is persistent until the driver re-feeds (the protocol real drivers follow)',
                        'values are harness tokens (value_tok); ostream is a null sink; operator new never fails',
                        'control flow inside one scenario is concrete (DESIGN 2.5): the solver decides over scenario numbers in a chunk and payload tokens']
    chunk = 4
    jobs = []
    quick_entries = ['c01_alt2', 'c01_or2', 'c01_assert', 'c01_subx', 'c01_subx_mut', 'c01_capture', 'c01_alt_in_alt']
    plan = [(mods['c01'], e, T, MC) for e in (quick_entries if ctx.tier == 'quick' else ENTRIES)]
    if 'c01t3' in mods:
        plan += [(mods['c01t3'], e, 3, 1) for e in ('c01_alt_in_alt', 'c01_alt_in_or', 'c01_alt2')]
    nscen = 0
    for m, e, t, mc in plan:
        if ctx.only and e not in ctx.only:
            continue
        valid, total = valid_scenarios(e, t, mc)
        nscen += len(valid)
        # chunks of consecutive scenario numbers that contain at least one valid scenario
        lo = None
        starts = sorted(set(k - k % chunk for k in valid))
        for lo in starts:
            hi = min(total, lo + chunk)
            jobs.append(lambda m=m, e=e, lo=lo, hi=hi, t=t: V.run_entry(
                ctx, m, e, 7, harness_unwind=chunk + 20, timeout=600,
                bounds='T<=%d, scenarios [%d,%d)' % (t, lo, hi), object_bits=14,
                cdefs=('VP_LO=%d' % lo, 'VP_HI=%d' % hi), label='%s/T%d[%d:%d]' % (e, t, lo, hi), tv_seeds=0))
    ctx.bounds['valid_scenarios'] = nscen
    V.run_parallel(jobs, workers=int(__import__('os').environ.get('VP_JOBS', '15')))

def replay(ctx, js):
    return V.generic_replay(ctx, modules(ctx), js)
