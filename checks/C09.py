"""C09 -- comparison is one consistent total order (constants kernel; DESIGN 6/C09)"""
import re
import vpcheck as V

LEVEL_TEXT = ("bounded symbolic model checking of constant::operator< and friends (constant.cc, int.cc, value-symbol.cc lowered "
              "from clang IR) over ALL pairs/triples of constants: 64-bit payload x signedness x a pool of 16 real domain objects "
              "(+ no domain), with the domain objects ordered as in the native build")

TUS = ['constant.cc', 'int.cc', 'value-symbol.cc', 'value.cc']
ENTRIES = ['c09_layout', 'c09_pair', 'c09_triple']

def modules(ctx):
    m = V.Module(ctx, 'c09', TUS, 'c09.cc', ENTRIES, native_tus=V.ALL_CORE + V.ALL_DW, native_libs=V.ALL_LIBS,
                 empties=('_ZN10value_type13register_type',))
    mc = V.Module(ctx, 'c16cmp', ['coverage.cc', 'value-aset.cc', 'value.cc'], 'c16cmp.cc',
                  ['c16_cmp_111', 'c16_cmp_222', 'c16_cmp_122', 'c16_cmp_012'], native_tus=V.ALL_CORE + V.ALL_DW, native_libs=V.ALL_LIBS,
                  empties=('_ZN10value_type13register_type',), traps=('_M_realloc_insert',))
    return {'c09': m, 'c16cmp': mc}

def run(ctx):
    mods = modules(ctx)
    m = mods['c09']
    ctx.bounds.update(values='fully symbolic 64-bit payload x signedness', domains='symbolic index into a pool of 16 domain objects + nullptr',
                      layout='address order of the domain objects = the native build\'s (read from the native harness at check time)')
    ctx.assumptions += ['ostream is a null sink (show() is not the subject)', 'only constants are compared here; strings, sequences, '
                        'address sets, DIEs and stacks are outside this check (see DESIGN 7)']
    try:
        exe = m.native()
        rc, out, err = ctx.run_native(exe, 'c09_layout', [])
        ranks = [int(x) for x in re.findall(r'VP_OBS (\d+)', out)]
        if rc != 0 or len(ranks) != 16:
            raise V.Inconclusive('cannot read native layout: rc=%d %s %s' % (rc, out[-200:], err[-300:]))
    except V.Inconclusive as e:
        ctx.inconclusive.append(dict(harness='c09_layout', reason=str(e)[:500]))
        V.log('INCONCLUSIVE property=C09 harness=c09_layout %s' % str(e)[:300])
        return
    ctx.bounds['native_ranks'] = ranks
    cdefs = ('VP_RANKED_PTR_ORDER', 'VP_NATIVE_RANKS=' + ','.join(str(r) for r in ranks))
    jobs = []
    for e in ('c09_pair', 'c09_triple'):
        if ctx.only and e not in ctx.only:
            continue
        jobs.append(lambda e=e: V.run_entry(ctx, m, e, 20, timeout=900, cdefs=cdefs, bounds='all constants of the pool', tv_seeds=2))
    # address sets: value_aset::cmp is a total order consistent with set equality (full 64-bit values)
    for e in ('c16_cmp_111', 'c16_cmp_222', 'c16_cmp_122', 'c16_cmp_012'):
        if ctx.only and e not in ctx.only:
            continue
        jobs.append(lambda e=e: V.run_entry(ctx, mods['c16cmp'], e, 8, timeout=600, bounds='three address sets, run counts per name, starts/ends fully symbolic 64-bit'))
    V.run_parallel(jobs)

def replay(ctx, js):
    return V.generic_replay(ctx, modules(ctx), js)
