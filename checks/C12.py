"""C12 (kernel) -- executions of one compiled operator graph do not influence one another (DESIGN 0.3)"""
import os
import vpcheck as V
import importlib.util
_spec = importlib.util.spec_from_file_location('C01', os.path.join(V.VERIF, 'checks', 'C01.py'))
C01 = importlib.util.module_from_spec(_spec); _spec.loader.exec_module(C01)

LEVEL_TEXT = ("bounded symbolic model checking of the real operator classes of op.cc (ALT = op_merge/op_tine, OR = op_or, sub-expression = op_subx; "
              "lowered from clang IR, wired as build.cc wires them) with TWO state areas over one graph: for every pair of input ranges, every "
              "sub-expression behaviour within the bound and five interleaving patterns (alternating from either side, sequential, one side "
              "abandoned after one pull, one side suspended), each execution's result sequence equals that of a fresh run on the same input")

ENTRIES = ['c12_alt2', 'c12_or2', 'c12_subx', 'c12_seq_copy']

def modules(ctx):
    MC = 1
    defs = ('VP_T=2', 'VP_MAXC=%d' % MC) + (('VP_C12_QUICK',) if ctx.tier == 'quick' else ())
    m = V.Module(ctx, 'c12', C01.CORE_TUS, 'c12.cc', ENTRIES, defs=defs, native_libs=('-ldl',),
                 native_tus=C01.ALL_CORE, empties=('_ZN10value_type13register_type',))
    native = [t for t in V.ALL_CORE if t != '@gen/parser.cc']
    p = V.Module(ctx, 'c12p', C01.CORE_TUS + ['tree.cc', 'tree_cr.cc', '@gen/lexer.cc'], 'c12p.cc', ['c12_compile_twice_drop'], native_tus=native,
                 native_libs=('-ldl',), empties=('_ZN10value_type13register_type',))
    return {'c12': m, 'c12p': p}

def run(ctx):
    ctx.gen_sources(need_parser=True)
    mods = modules(ctx)
    m = mods['c12']
    ctx.bounds.update(inputs='2 input stacks; execution ranges [0,1) [0,2) [1,2) for each of two executions', results='<= 1 result per input and sub-expression',
                      patterns='ABAB.., BABA.., A then B, B once / A to the end / B abandoned, A once / B to the end / A to the end', unwind='library loops 7')
    ctx.assumptions += ['operator new never fails', 'the graph is built by the harness as build.cc builds it (parser/builder not encoded)',
                        'zw_result / zw_query_execute themselves are exercised in the C14 API kernel; cache.cc (DWARF value reuse) is not covered']
    chunk = 3
    to = 900 if ctx.tier == 'quick' else 3000      # thorough: 540 runs of 3 scenarios; a run takes 2-10 min when all cores are busy
    ctx.bounds['tier_selection'] = ('quick: 3 range pairs x 3 patterns x 4 count vectors = 36 scenarios per graph' if ctx.tier == 'quick' else 'all scenarios')
    jobs = []
    for e in ['c12_alt2', 'c12_or2', 'c12_subx']:
        if ctx.only and e not in ctx.only:
            continue
        n = 36 if ctx.tier == 'quick' else 9 * 5 * (2 ** (4 if e != 'c12_subx' else 2))
        for lo in range(0, n, chunk):
            jobs.append(lambda e=e, lo=lo: V.run_entry(ctx, m, e, 7, timeout=to, bounds='scenarios [%d,%d)' % (lo, lo + chunk), object_bits=14, tv_seeds=0,
                                                       harness_unwind=chunk + 20, cdefs=('VP_LO=%d' % lo, 'VP_HI=%d' % (lo + chunk)),
                                                       label='%s[%d:%d]' % (e, lo, lo + chunk)))
    if not ctx.only or 'c12_seq_copy' in ctx.only:
        for lo in range(0, 24, 4):
            jobs.append(lambda lo=lo: V.run_entry(ctx, m, 'c12_seq_copy', 7, timeout=900, bounds='sequence shapes: scenarios [%d,%d) of length 0..2 x nested x inner 0..1 x copy/clone' % (lo, lo + 4),
                                                  object_bits=12, tv_seeds=0, harness_unwind=30, cdefs=('VP_LO=%d' % lo, 'VP_HI=%d' % (lo + 4)), label='c12_seq_copy[%d:%d]' % (lo, lo + 4)))
    if not ctx.only or 'c12_compile_twice_drop' in ctx.only:
        for lo in range(0, 9, 3):
            jobs.append(lambda lo=lo: V.run_entry(ctx, mods['c12p'], 'c12_compile_twice_drop', 8, timeout=900, bounds='back quotes of two occurrences: scenarios [%d,%d) of 1..3 x 1..3' % (lo, lo + 3),
                                                  object_bits=12, tv_seeds=0, harness_unwind=30, cdefs=('VP_LO=%d' % lo, 'VP_HI=%d' % (lo + 3)), label='c12_compile_twice_drop[%d:%d]' % (lo, lo + 3)))
    V.run_parallel(jobs, workers=15)

def replay(ctx, js):
    ctx.gen_sources(need_parser=True)
    return V.generic_replay(ctx, modules(ctx), js)
