"""C07 (kernel) -- fixed-width integral data decode with the signedness implied by the type's encoding (DESIGN 0.3)"""
import vpcheck as V

LEVEL_TEXT = ("bounded symbolic model checking of handle_encoding / handle_encoding_data / handle_encoding_block / fix_dwarf_formsdata / atval_signed / "
              "atval_unsigned (atval.cc, compiled into the harness TU and lowered from clang IR) over libdw stubs that admit both the old (zero-extending) and "
              "the new (sign-extending) dwarf_formsdata: for every DW_FORM_data1/2/4/8 datum and every block of 1/2/4/8 bytes with fully symbolic content "
              "and every DW_ATE encoding, the value, its sign and its domain are what the DWARF standard prescribes, and uninterpreted encodings are reported")

TUS = ['value-cst.cc', 'constant.cc', 'int.cc', 'value.cc', 'value-dw.cc', 'dwcst.cc', 'value-aset.cc', 'coverage.cc',
       'value-str.cc', 'value-seq.cc', 'stack.cc', 'op.cc', 'scon.cc', 'layout.cc', 'overload.cc', 'selector.cc', 'builtin.cc', 'docstring.cc',
       'value-closure.cc', 'builtin-closure.cc', 'pred_result.cc', 'dwfl_context.cc', 'cache.cc', 'dwit.cc', 'value-symbol.cc']

def modules(ctx):
    ctx.gen_sources()
    native = [t for t in V.ALL_CORE + V.ALL_DW if t != 'atval.cc']
    m = V.Module(ctx, 'c07', TUS, 'c07.cc', ['c07_encoding'], native_tus=native, native_libs=V.ALL_LIBS,
                 empties=('_ZN10value_type13register_type',), fno_access=False)
    m.cha_loose = True     # value_producer<value> is a vptr-only interface: llvm merges it with constant_dom, see ll2c --cha-loose
    return {'c07': m}

def run(ctx):
    m = modules(ctx)['c07']
    ctx.bounds.update(data='all 8 content bytes symbolic', forms='DW_FORM_data1/2/4/8; DW_FORM_block1 of 1, 2, 4, 8 and 3 bytes',
                      encodings='every DW_ATE_* of dwarf.h (0x0..0x12), lo_user, hi_user, and the undefined codes 0x13, 0x7f', elfutils='both dwarf_formsdata behaviours')
    ctx.assumptions += ['libdw is a stub per its documented contract (harness/c07.cc); host byte order = file byte order (little endian)',
                        'NOT covered: which DIE/type an attribute belongs to (handle_at_dependent_value chases DW_AT_type through libdw), LEB128 forms, '
                        'strings, references, flags, addresses, location expressions (see C17), the at_value form switch', 'operator new never fails']
    chunk = 9
    jobs = []
    for lo in range(0, 9 * 23, chunk):
        jobs.append(lambda lo=lo: V.run_entry(ctx, m, 'c07_encoding', 8, timeout=900, bounds='scenarios [%d,%d): all forms x one encoding' % (lo, lo + chunk), object_bits=12,
                                              cdefs=('VP_LO=%d' % lo, 'VP_HI=%d' % (lo + chunk)), label='c07_encoding[%d:%d]' % (lo, lo + chunk),
                                              tv_seeds=0, harness_unwind=chunk + 20))
    V.run_parallel(jobs, workers=15)

def replay(ctx, js):
    return V.generic_replay(ctx, modules(ctx), js)
