"""C03 (kernel, run time) -- a read sees the value bound for the input stack being processed (DESIGN 0.3)"""
import os
import vpcheck as V
import importlib.util
_spec = importlib.util.spec_from_file_location('C01', os.path.join(V.VERIF, 'checks', 'C01.py'))
C01 = importlib.util.module_from_spec(_spec); _spec.loader.exec_module(C01)

LEVEL_TEXT = ("bounded symbolic model checking of op_bind / op_read (op.cc) and op_apply's pass-through (builtin-closure.cc), lowered from clang IR and "
              "wired as build.cc wires BIND and READ, with a multi-result body, an ALT, a second binder or a sub-expression context between the binder "
              "and the read: for every input count, token assignment, split of the inputs into two re-feed epochs and body behaviour within the bound, "
              "every result carries the value bound for the input it derives from")

ENTRIES = ['c03_bind_read', 'c03_bind_alt_read', 'c03_two_binds', 'c03_bind_subx']

def modules(ctx):
    T, MC = C01.params(ctx)
    m = V.Module(ctx, 'c03', C01.CORE_TUS, 'c03.cc', ENTRIES, defs=('VP_T=%d' % T, 'VP_MAXC=%d' % MC), native_libs=('-ldl',),
                 native_tus=C01.ALL_CORE, empties=('_ZN10value_type13register_type',))
    m.T, m.MC = T, MC
    return {'c03': m}

def run(ctx):
    m = modules(ctx)['c03']
    T, MC = m.T, m.MC
    ctx.bounds.update(inputs='T<=%d input stacks, 2 re-feed epochs (every split)' % T, results='<= %d results per input and body' % MC, unwind='library loops and the nesting of virtual next() calls: 7 (12 for the two-binder graph, whose chain is 9 operators deep)')
    ctx.assumptions += ['operator new never fails', 'name resolution at compile time (bindings.cc, uprefs, the BLOCK case of build.cc) and blocks / closures '
                        '(op_lex_closure, op_upread, op_apply applying a closure) are NOT covered: the graphs are wired by the harness']
    chunk = 6
    jobs = []
    nin = (T + 1) * (T + 1)
    for e in ENTRIES:
        if ctx.only and e not in ctx.only:
            continue
        n = nin * ((MC + 1) ** (T if e in ('c03_bind_read', 'c03_bind_subx') else 2 * T))
        for lo in range(0, n, chunk):
            jobs.append(lambda e=e, lo=lo: V.run_entry(ctx, m, e, 12 if e == 'c03_two_binds' else 7, timeout=900, bounds='scenarios [%d,%d)' % (lo, lo + chunk), object_bits=14, tv_seeds=0,
                                                       harness_unwind=chunk + 20, cdefs=('VP_LO=%d' % lo, 'VP_HI=%d' % (lo + chunk)),
                                                       label='%s[%d:%d]' % (e, lo, lo + chunk)))
    V.run_parallel(jobs, workers=15)

def replay(ctx, js):
    return V.generic_replay(ctx, modules(ctx), js)
