"""C16 -- address sets behave as mathematical sets (DESIGN 6/C16)"""
import vpcheck as V

LEVEL_TEXT = ("bounded symbolic model checking of coverage.cc (lowered from clang IR) as one inductive step from an arbitrary "
              "canonical pre-state of <=K runs: add/remove/intersect/is_covered/is_overlap/operator+,-,== against a "
              "membership oracle with a symbolic probe address; INV (ascending, disjoint, non-adjacent, non-empty) is proved "
              "inductive so the step result extends to operation histories of any length")

OPS = {'add': 4, 'remove': 4, 'query': 4, 'intersect': 3, 'setops': 3}

def modules(ctx):
    W = 6 if ctx.tier == 'quick' else 8
    ents = []
    for op, kmax in OPS.items():
        for k in range(1, kmax + 1):
            for b in ('b0', 'b32', 'b63', 'btop', 'full'):
                ents.append('c16_%s_k%d_%s' % (op, k, b))
    # c16a: pre-state reserves K+2 slots, so libstdc++'s reallocation path must be unreachable (trap, proved)
    ea = [e for e in ents if e.split('_')[1] in ('add', 'remove', 'query')]
    eb = [e for e in ents if e.split('_')[1] in ('intersect', 'setops')]
    ma = V.Module(ctx, 'c16a', ['coverage.cc'], 'c16.cc', ea, defs=('VP_W=%d' % W,), native_libs=('-ldl',), traps=('_M_realloc_insert',))
    mb = V.Module(ctx, 'c16b', ['coverage.cc'], 'c16.cc', eb, defs=('VP_W=%d' % (3 if ctx.tier == 'quick' else 4),), native_libs=('-ldl',),
                  stubs=('cxxrt.c', 'vp_cbmc.c', 'ostream_null.c', 'vec_model.c'),
                  overrides=('_ZNSt6vectorI9cov_rangeSaIS0_EE17_M_realloc_insertIJRKS0_EEEvN9__gnu_cxx17__normal_iteratorIPS0_S2_EEDpOT_',
                             '_ZNSt6vectorI9cov_rangeSaIS0_EE17_M_realloc_insertIJS0_EEEvN9__gnu_cxx17__normal_iteratorIPS0_S2_EEDpOT_'))
    mc = V.Module(ctx, 'c16cmp', ['coverage.cc', 'value-aset.cc', 'value.cc'], 'c16cmp.cc',
                  ['c16_cmp_111', 'c16_cmp_222', 'c16_cmp_122', 'c16_cmp_012'], native_tus=V.ALL_CORE + V.ALL_DW, native_libs=V.ALL_LIBS,
                  empties=('_ZN10value_type13register_type',), traps=('_M_realloc_insert',))
    return {'c16a': ma, 'c16b': mb, 'c16cmp': mc}

def plan(ctx):
    quick = ctx.tier == 'quick'
    jobs = []
    for op, kmax in OPS.items():
        if quick and op == 'intersect':
            continue        # does not finish inside a quick cap (DESIGN 0.5); thorough tier only
        ks = [2] if quick else [3]
        if op in ('intersect', 'setops'):
            # the result vector grows through libstdc++'s real reallocation path: smaller K
            ks = [1] if quick else [2]
        for k in ks:
            for b in ('b0', 'b32', 'b63', 'btop'):
                jobs.append(('c16_%s_k%d_%s' % (op, k, b), k, (900 if op in ('intersect', 'setops') else 700) if quick else 2400))
        if quick and op in ('add', 'remove', 'query'):
            jobs.append(('c16_%s_k3_b0' % op, 3, 900))
        if not quick and kmax >= 4:
            jobs.append(('c16_%s_k4_b0' % op, 4, 3000))
        if not quick:
            jobs.append(('c16_%s_k%d_full' % (op, min(2, kmax)), 2, 1800))
    return jobs

def run(ctx):
    mods = modules(ctx)
    W = 6 if ctx.tier == 'quick' else 8
    ctx.bounds.update(window_bits=W, bases=['0', '2^32-2^(W-1)', '2^63-2^(W-1)', '2^64-1-2^W'],
                      K='pre-state runs <= K per harness name (k<K>)', unwind='2K+6 (checked by unwinding assertions)',
                      full='thorough only: K<=2 with all values fully symbolic 64-bit')
    ctx.assumptions += ['operation arguments have a representable end (start+length <= 2^64-1), the documented domain',
                        'is_covered/is_overlap queried with length >= 1',
                        'operator new never fails', 'ostream formatting not encoded (format_ranges is outside the claim)']
    jobs = []
    for e, k, to in plan(ctx):
        if ctx.only and e not in ctx.only:
            continue
        m = mods['c16a'] if e.split('_')[1] in ('add', 'remove', 'query') else mods['c16b']
        jobs.append(lambda e=e, k=k, to=to, m=m: V.run_entry(ctx, m, e, 2 * k + 6, timeout=to,
                                                          bounds='K<=%d runs, window 2^%d at base %s' % (k, W, e.split('_')[-1])))
    for e in ('c16_cmp_111', 'c16_cmp_222', 'c16_cmp_122', 'c16_cmp_012'):
        if ctx.only and e not in ctx.only:
            continue
        jobs.append(lambda e=e: V.run_entry(ctx, mods['c16cmp'], e, 8, timeout=600, bounds='three address sets of the run counts in the name, all starts/ends fully symbolic 64-bit'))
    V.run_parallel(jobs)

def replay(ctx, js):
    return V.generic_replay(ctx, modules(ctx), js)
