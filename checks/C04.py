"""C04 -- assertions never disturb the stack; ?X / !X are complementary (three-valued logic kernel; DESIGN 6/C04)"""
import os
import vpcheck as V
import importlib.util
_spec = importlib.util.spec_from_file_location("C01", os.path.join(V.VERIF, "checks", "C01.py"))
C01 = importlib.util.module_from_spec(_spec); _spec.loader.exec_module(C01)

LEVEL_TEXT = ("bounded symbolic model checking of the three-valued predicate kernel (pred_result operators, pred_not/and/or::result, "
              "maybe_invert) lowered from clang IR, for all 3x3 operand outcomes; the stack-preservation clauses for ?(E)/[E]/let are "
              "checked by the C01 operator harnesses (c01_assert, c01_subx, c01_capture: the caller's stack is intact)")

TUS = ['op.cc', 'builtin.cc', 'pred_result.cc', 'stack.cc', 'value.cc', 'scon.cc', 'layout.cc', 'value-seq.cc', 'value-cst.cc',
       'value-str.cc', 'constant.cc', 'int.cc', 'overload.cc', 'selector.cc', 'docstring.cc', 'value-closure.cc', 'builtin-closure.cc']

def modules(ctx):
    m = V.Module(ctx, 'c04', TUS, 'c04.cc', ['c04_tables', 'c04_pred_objects', 'c04_invert_pos', 'c04_invert_neg'], native_tus=V.ALL_CORE, native_libs=('-ldl',),
                 empties=('_ZN10value_type13register_type',))
    mb = V.Module(ctx, 'c04b', TUS, 'c04b.cc', ['c04_overload_match', 'c04_overload_mismatch'], native_tus=V.ALL_CORE, native_libs=('-ldl',),
                  empties=('_ZN10value_type13register_type',))
    mo = V.Module(ctx, 'c04o', C01.CORE_TUS, 'c01.cc', ['c01_assert', 'c01_subx', 'c01_subx_mut', 'c01_capture'], defs=('VP_T=2', 'VP_MAXC=1'),
                  native_libs=('-ldl',), native_tus=C01.ALL_CORE, empties=('_ZN10value_type13register_type',))
    return {'c04': m, 'c04b': mb, 'c04o': mo}

def run(ctx):
    mods = modules(ctx)
    m = mods['c04']
    ctx.bounds.update(operands='all 3x3 pred_result pairs, both polarities of maybe_invert')
    ctx.assumptions += ['operand predicates are stubs returning a symbolic fixed outcome', 'operator new never fails']
    V.run_simple(ctx, m, [('c04_tables', 4, 300, 'all 9 operand pairs'), ('c04_pred_objects', 6, 600, 'all 9 operand pairs'),
                          ('c04_invert_pos', 6, 300, 'all 3 outcomes'), ('c04_invert_neg', 6, 300, 'all 3 outcomes')],
                 object_bits=12)
    V.run_simple(ctx, modules(ctx)['c04b'] if False else mods['c04b'], [('c04_overload_match', 8, 600, '3 outcomes, matching type'),
                                        ('c04_overload_mismatch', 8, 600, '3 outcomes, non-matching type')], object_bits=12)

    # the stack-preservation clauses: ?(E) / let / [E] leave the caller's stack intact (operator harnesses of C01)
    jobs = []
    for e in ('c01_assert', 'c01_subx', 'c01_subx_mut', 'c01_capture'):
        if ctx.only and e not in ctx.only:
            continue
        valid, total = C01.valid_scenarios(e, 2, 1)
        for lo in sorted(set(k - k % 4 for k in valid)):
            hi = min(total, lo + 4)
            jobs.append(lambda e=e, lo=lo, hi=hi: V.run_entry(ctx, mods['c04o'], e, 7, harness_unwind=24, timeout=600, bounds='T<=2, scenarios [%d,%d)' % (lo, hi),
                                                              object_bits=14, cdefs=('VP_LO=%d' % lo, 'VP_HI=%d' % hi), label='%s[%d:%d]' % (e, lo, hi), tv_seeds=0))
    V.run_parallel(jobs, workers=15)

def replay(ctx, js):
    return V.generic_replay(ctx, modules(ctx), js)
