"""C04 -- assertions never disturb the stack; ?X / !X are complementary (three-valued logic kernel; DESIGN 6/C04)"""
import vpcheck as V

LEVEL_TEXT = ("bounded symbolic model checking of the three-valued predicate kernel (pred_result operators, pred_not/and/or::result, "
              "maybe_invert) lowered from clang IR, for all 3x3 operand outcomes; the stack-preservation clauses for ?(E)/[E]/let are "
              "checked by the C01 operator harnesses (c01_assert, c01_subx, c01_capture: the caller's stack is intact)")

TUS = ['op.cc', 'builtin.cc', 'pred_result.cc', 'stack.cc', 'value.cc', 'scon.cc', 'layout.cc', 'value-seq.cc', 'value-cst.cc',
       'value-str.cc', 'constant.cc', 'int.cc', 'overload.cc', 'selector.cc', 'docstring.cc', 'value-closure.cc', 'builtin-closure.cc']

def modules(ctx):
    m = V.Module(ctx, 'c04', TUS, 'c04.cc', ['c04_tables', 'c04_pred_objects', 'c04_invert_pos', 'c04_invert_neg'], native_tus=V.ALL_CORE, native_libs=('-ldl',),
                 empties=('_ZN10value_type13register_type',))
    return {'c04': m}

def run(ctx):
    m = modules(ctx)['c04']
    ctx.bounds.update(operands='all 3x3 pred_result pairs, both polarities of maybe_invert')
    ctx.assumptions += ['operand predicates are stubs returning a symbolic fixed outcome', 'operator new never fails']
    V.run_simple(ctx, m, [('c04_tables', 4, 300, 'all 9 operand pairs'), ('c04_pred_objects', 6, 600, 'all 9 operand pairs'),
                          ('c04_invert_pos', 6, 300, 'all 3 outcomes'), ('c04_invert_neg', 6, 300, 'all 3 outcomes')],
                 object_bits=12)

def replay(ctx, js):
    return V.generic_replay(ctx, modules(ctx), js)
