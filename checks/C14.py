"""C14 (kernel) / C08 literals -- parse_int either yields the exact documented value or a std::exception (DESIGN 0.3)"""
import os
import vpcheck as V
import importlib.util
_spec = importlib.util.spec_from_file_location('C01', os.path.join(V.VERIF, 'checks', 'C01.py'))
C01 = importlib.util.module_from_spec(_spec); _spec.loader.exec_module(C01)

LEVEL_TEXT = ("bounded symbolic model checking of parse_int (parser.yy, via the bison output regenerated at check time and lowered from "
              "clang IR) with the real std::stoull header code over a C11 model of strtoull: ALL tokens the lexer's INT rule admits up to "
              "5 characters, and boundary literals around 2^63 / 2^64 in radix 16, 10, 8 with their last two or three characters symbolic, "
              "against a reference reader written from doc/syntax.rst")

TUS = ['constant.cc', 'int.cc']
ENTRIES = ['c14_int_len%d' % l for l in range(1, 5)] + ['c14_int_neg_len%d' % l for l in range(1, 5)] + \
          ['c14_int_bound%d_%s' % (r, v) for r in (16, 10, 8) for v in ('max', 'max_long', 'negmax', '63', 'neg63', 'neg63_long')]

API_ENTRIES = ['c14api_parse_len', 'c14api_parse_z', 'c14api_result', 'c14api_str']

def modules(ctx):
    native = [t for t in V.ALL_CORE if t != '@gen/parser.cc']
    m = V.Module(ctx, 'c14', TUS + ['@gen/lexer.cc'], 'c14.cc', ENTRIES, native_tus=native, native_libs=('-ldl',),
                 empties=('_ZN10value_type13register_type',),
                 stubs=('cxxrt.c', 'vp_cbmc.c', 'ostream_null.c', 'string_msg.c'),
                 overrides=('_ZStplIcSt11char_traitsIcESaIcEENSt7__cxx1112basic_stringIT_T0_T1_EEOS8_PKS5_',))
    m.kf_defs = ['VP_KF_' + k['id'] for k in V.load_known('C14') if 'id' in k]
    # API boundary (harness/c14api.cc): the real libzwerg.cc over stubs of the parser and the op builder
    api_native = [t for t in C01.ALL_CORE if t != 'build.cc'] + ['libzwerg.cc']
    a = V.Module(ctx, 'c14api', C01.CORE_TUS + ['libzwerg.cc', 'tree.cc'], 'c14api.cc', API_ENTRIES, native_tus=api_native, native_libs=('-ldl',),
                 empties=('_ZN10value_type13register_type',), fno_access=False)
    return {'c14': m, 'c14api': a}

def run(ctx):
    ctx.gen_sources(need_parser=True)
    mods = modules(ctx)
    m = mods['c14']
    for k in V.load_known('C14'):
        ctx.known.append(k['text'].split(' ', 1)[1])
    ctx.bounds.update(tokens='tokens of 1..4 characters after the optional sign: first character every digit, second character 21 class representatives (xXbBoO0127 89afgzAFGZ_), further characters fully symbolic', boundary='2^63 and 2^64-1 literals in radix 16/10/8, '
                      'optional sign, last 2 characters symbolic, optional extra symbolic character', unwind='80 (strtoull digit loop 70)')
    ctx.assumptions += ['strtoull modelled per C11 7.22.1.4 (stubs/cxxrt.c); errno is a plain variable', 'operator new never fails',
                        'the lexer and the grammar around the literal are outside (DESIGN 7)']
    jobs = []
    # ---- API boundary
    a = mods['c14api']
    ctx.bounds.update(api='queries of 0..3 bytes (explicit length, exact buffer; NUL-terminated); parser outcome in {ok, runtime_error, invalid_argument, '
                          'out_of_range, non-std exception} x builder outcome {ok, runtime_error}; result sets of 0..2 stacks with a failure at any pull; '
                          'strings of 0..4 arbitrary bytes')
    ctx.assumptions += ['API kernel: parse_query and tree::build_exec are stubs that fail or succeed nondeterministically (the real parser behind the API is '
                        'not encoded); the compiled query is a protocol stub operator']
    api_plan = [('c14api_parse_len', lo, 4, 40) for lo in range(0, 40, 4)] + [('c14api_parse_z', lo, 4, 20) for lo in range(0, 20, 4)] + \
               [('c14api_result', lo, 6, 108) for lo in range(0, 108, 6)] + [('c14api_str', 0, 5, 5)]
    for e, lo, ch, n in api_plan:
        if ctx.only and e not in ctx.only:
            continue
        jobs.append(lambda e=e, lo=lo, ch=ch: V.run_entry(ctx, a, e, 10, timeout=900, bounds='scenarios [%d,%d)' % (lo, lo + ch), object_bits=12, tv_seeds=0,
                                                          harness_unwind=ch + 12, cdefs=('VP_LO=%d' % lo, 'VP_HI=%d' % (lo + ch)), label='%s[%d:%d]' % (e, lo, lo + ch)))
    chunk = 4
    for e in ENTRIES:
        if ctx.only and e not in ctx.only:
            continue
        if 'bound' in e:
            jobs.append(lambda e=e: V.run_entry(ctx, m, e, 80, timeout=600, bounds='boundary literal, last 2-3 characters symbolic', object_bits=12,
                                                tv_seeds=1, harness_unwind=80))
            continue
        L = int(e[-1])
        if ctx.tier == 'quick' and L >= 2:
            continue        # quick: boundary literals and one-character tokens; longer tokens in the thorough tier
        if L == 4:
            continue        # four-character tokens: not finished inside the cap, not claimed
        n = 10 if L == 1 else 220
        for lo in range(0, n, chunk):
            hi = min(n, lo + chunk)
            jobs.append(lambda e=e, lo=lo, hi=hi: V.run_entry(ctx, m, e, 80, timeout=900, bounds='first two characters = scenario [%d,%d), rest symbolic' % (lo, hi),
                                                              object_bits=12, tv_seeds=0, harness_unwind=80, cdefs=('VP_LO=%d' % lo, 'VP_HI=%d' % hi),
                                                              label='%s[%d:%d]' % (e, lo, hi)))
    V.run_parallel(jobs, workers=15)

def replay(ctx, js):
    ctx.gen_sources(need_parser=True)
    return V.generic_replay(ctx, modules(ctx), js)
