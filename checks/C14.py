"""C14 (kernel) / C08 literals -- parse_int either yields the exact documented value or a std::exception (DESIGN 0.3)"""
import vpcheck as V

LEVEL_TEXT = ("bounded symbolic model checking of parse_int (parser.yy, via the bison output regenerated at check time and lowered from "
              "clang IR) with the real std::stoull header code over a C11 model of strtoull: ALL tokens the lexer's INT rule admits up to "
              "5 characters, and boundary literals around 2^63 / 2^64 in radix 16, 10, 8 with their last two or three characters symbolic, "
              "against a reference reader written from doc/syntax.rst")

TUS = ['constant.cc', 'int.cc']
ENTRIES = ['c14_int_len1', 'c14_int_len2', 'c14_int_len3', 'c14_int_len4', 'c14_int_len5', 'c14_int_bound16', 'c14_int_bound10', 'c14_int_bound8']

def modules(ctx):
    native = [t for t in V.ALL_CORE if t != '@gen/parser.cc']
    m = V.Module(ctx, 'c14', TUS + ['@gen/lexer.cc'], 'c14.cc', ENTRIES, native_tus=native, native_libs=('-ldl',),
                 empties=('_ZN10value_type13register_type',))
    m.kf_defs = ['VP_KF_' + k['id'] for k in V.load_known('C14') if 'id' in k]
    return {'c14': m}

def run(ctx):
    ctx.gen_sources(need_parser=True)
    m = modules(ctx)['c14']
    for k in V.load_known('C14'):
        ctx.known.append(k['text'].split(' ', 1)[1])
    ctx.bounds.update(tokens='every byte string of length 1..5 admitted by "-"?[0-9][_a-zA-Z0-9]*', boundary='2^63 and 2^64-1 literals in radix 16/10/8, '
                      'optional sign, last 2 characters symbolic, optional extra symbolic character', unwind='80 (strtoull digit loop 70)')
    ctx.assumptions += ['strtoull modelled per C11 7.22.1.4 (stubs/cxxrt.c); errno is a plain variable', 'operator new never fails',
                        'the lexer and the grammar around the literal are outside (DESIGN 7)']
    plan = [(e, 80, 900, 'see name') for e in ENTRIES]
    if ctx.tier == 'quick':
        plan = [p for p in plan if p[0] not in ('c14_int_len5',)]
    V.run_simple(ctx, m, plan, object_bits=12, tv_seeds=2, harness_unwind=80)

def replay(ctx, js):
    ctx.gen_sources(need_parser=True)
    return V.generic_replay(ctx, modules(ctx), js)
