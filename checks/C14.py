"""C14 (kernel) / C08 literals -- parse_int either yields the exact documented value or a std::exception (DESIGN 0.3)"""
import vpcheck as V

LEVEL_TEXT = ("bounded symbolic model checking of parse_int (parser.yy, via the bison output regenerated at check time and lowered from "
              "clang IR) with the real std::stoull header code over a C11 model of strtoull: ALL tokens the lexer's INT rule admits up to "
              "5 characters, and boundary literals around 2^63 / 2^64 in radix 16, 10, 8 with their last two or three characters symbolic, "
              "against a reference reader written from doc/syntax.rst")

TUS = ['constant.cc', 'int.cc']
ENTRIES = ['c14_int_len%d' % l for l in range(1, 5)] + ['c14_int_neg_len%d' % l for l in range(1, 5)] + \
          ['c14_int_bound%d_%s' % (r, v) for r in (16, 10, 8) for v in ('max', 'max_long', 'negmax', '63', 'neg63', 'neg63_long')]

def modules(ctx):
    native = [t for t in V.ALL_CORE if t != '@gen/parser.cc']
    m = V.Module(ctx, 'c14', TUS + ['@gen/lexer.cc'], 'c14.cc', ENTRIES, native_tus=native, native_libs=('-ldl',),
                 empties=('_ZN10value_type13register_type',),
                 stubs=('cxxrt.c', 'vp_cbmc.c', 'ostream_null.c', 'string_msg.c'),
                 overrides=('_ZStplIcSt11char_traitsIcESaIcEENSt7__cxx1112basic_stringIT_T0_T1_EEOS8_PKS5_',))
    m.kf_defs = ['VP_KF_' + k['id'] for k in V.load_known('C14') if 'id' in k]
    return {'c14': m}

def run(ctx):
    ctx.gen_sources(need_parser=True)
    m = modules(ctx)['c14']
    for k in V.load_known('C14'):
        ctx.known.append(k['text'].split(' ', 1)[1])
    ctx.bounds.update(tokens='tokens of 1..4 characters after the optional sign: first character every digit, second character 21 class representatives (xXbBoO0127 89afgzAFGZ_), further characters fully symbolic', boundary='2^63 and 2^64-1 literals in radix 16/10/8, '
                      'optional sign, last 2 characters symbolic, optional extra symbolic character', unwind='80 (strtoull digit loop 70)')
    ctx.assumptions += ['strtoull modelled per C11 7.22.1.4 (stubs/cxxrt.c); errno is a plain variable', 'operator new never fails',
                        'the lexer and the grammar around the literal are outside (DESIGN 7)']
    jobs = []
    chunk = 4
    for e in ENTRIES:
        if ctx.only and e not in ctx.only:
            continue
        if 'bound' in e:
            jobs.append(lambda e=e: V.run_entry(ctx, m, e, 80, timeout=600, bounds='boundary literal, last 2-3 characters symbolic', object_bits=12,
                                                tv_seeds=1, harness_unwind=80))
            continue
        L = int(e[-1])
        if ctx.tier == 'quick' and L >= 2:
            continue        # quick: boundary literals and one-character tokens; longer tokens in the thorough tier
        if L == 4:
            continue        # four-character tokens: not finished inside the cap, not claimed
        n = 10 if L == 1 else 220
        for lo in range(0, n, chunk):
            hi = min(n, lo + chunk)
            jobs.append(lambda e=e, lo=lo, hi=hi: V.run_entry(ctx, m, e, 80, timeout=900, bounds='first two characters = scenario [%d,%d), rest symbolic' % (lo, hi),
                                                              object_bits=12, tv_seeds=0, harness_unwind=80, cdefs=('VP_LO=%d' % lo, 'VP_HI=%d' % hi),
                                                              label='%s[%d:%d]' % (e, lo, hi)))
    V.run_parallel(jobs, workers=15)

def replay(ctx, js):
    ctx.gen_sources(need_parser=True)
    return V.generic_replay(ctx, modules(ctx), js)
