"""C08 -- integer arithmetic exact over [-2^63, 2^64-1] or error (DESIGN 6/C08)"""
import os
import vpcheck as V
import importlib.util
_spec = importlib.util.spec_from_file_location("C14", os.path.join(V.VERIF, "checks", "C14.py"))
C14 = importlib.util.module_from_spec(_spec); _spec.loader.exec_module(C14)

LEVEL_TEXT = ("bounded symbolic model checking of int.cc lowered from clang IR: every operator is checked for ALL pairs of "
              "(64-bit payload, signedness) operands against an exact 128-bit oracle; no loops in the code under test")

MULT = ['c08_div_kf_bias', 'c08_divq_any', 'c08_mul_any', 'c08_mul_smallA', 'c08_mul_smallB', 'c08_mul_pow2', 'c08_div_any', 'c08_div_smallB', 'c08_div_smallQ',
        'c08_mod_any', 'c08_mod_smallB', 'c08_mod_smallQ']

def modules(ctx):
    ents = ['c08_add', 'c08_sub', 'c08_neg', 'c08_cmp'] + MULT
    m = V.Module(ctx, 'c08', ['int.cc'], 'c08.cc', ents)
    m.kf_defs = ['VP_KF_' + k['id'] for k in V.load_known('C08') if 'id' in k]
    mods = {'c08': m}
    mods.update(C14.modules(ctx))
    return mods

def run(ctx):
    mods = modules(ctx)
    m = mods['c08']
    ctx.bounds.update(operands='both operands fully symbolic: 64-bit payload x signedness flag (both representations of every non-negative value)',
                      unwind='int.cc has no loops; unwind 4 covers the stub string copies')
    ctx.assumptions += ['describe_* message builders run against a null-sink ostream model (message text not checked)',
                        'std::domain_error modelled by stubs/cxxrt.c (object = vptr + message copy)',
                        'operator new never fails']
    # Full-width obligations.  The all-pairs 64-bit division/modulo queries are attempted first; if one does not
    # finish inside its cap it is INCONCLUSIVE and the operand-class harnesses (one quantity < 2^VP_W, the other
    # operand fully symbolic) carry the narrower claim, which is stated per obligation.
    full = [('c08_add', 300), ('c08_sub', 300), ('c08_neg', 300), ('c08_cmp', 300), ('c08_mul_any', 600),
            ('c08_div_any', 900), ('c08_mod_any', 600)]
    divmod_any = [('c08_divq_any', 1800)]
    classes = [('c08_div_smallB', 600), ('c08_mul_smallA', 300), ('c08_mul_smallB', 300)]
    for k in V.load_known('C08'):
        ctx.known.append(k['text'].split(' ', 1)[1])
    if any(k.get('id') == 'div_bias' for k in V.load_known('C08')):
        full.append(('c08_div_kf_bias', 300))
    plan = full + (classes + divmod_any if ctx.tier != 'quick' else [])
    jobs = []
    for e, to in plan:
        if ctx.only and e not in ctx.only:
            continue
        if ctx.tier == 'thorough' and e.endswith('_any'):
            to *= 4
        b = 'all 2^130 operand pairs (64-bit payload x signedness, both operands)'
        if 'small' in e:
            b = 'one quantity (|a|, |b| or the quotient, see name) < 2^8, the other operand fully symbolic 64-bit x signedness'
        jobs.append(lambda e=e, to=to, b=b: V.run_entry(ctx, m, e, 10, timeout=to, cdefs=('VP_DIV_BY_IDENTITY',), bounds=b))
    # integer literals: parse_int on boundary literals around 2^63 / 2^64 in radix 16, 10, 8 (harness/c14.cc)
    ctx.gen_sources(need_parser=True)
    for e in C14.ENTRIES:
        if 'bound' not in e or (ctx.only and e not in ctx.only):
            continue
        jobs.append(lambda e=e: V.run_entry(ctx, mods['c14'], e, 80, timeout=600, bounds='boundary literal, last 2-3 characters symbolic', object_bits=12,
                                            tv_seeds=1, harness_unwind=80))
    V.run_parallel(jobs)

def replay(ctx, js):
    return V.generic_replay(ctx, modules(ctx), js)
