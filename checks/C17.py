"""C17 (kernel) -- location-expression operations report operands of the right number, sign and domain (DESIGN 0.3)"""
import os
import vpcheck as V

LEVEL_TEXT = ("bounded symbolic model checking of dwop_number/dwop_number2 (locexpr_op_values<0/1>, atval.cc, lowered from clang IR) for "
              "every opcode 0..255 (scenario digit) with both 64-bit operand words symbolic, against an operand-class table written from "
              "the DWARF 5 standard independently of atval.cc")

TUS = ['atval.cc', 'value-cst.cc', 'constant.cc', 'int.cc', 'value.cc', 'value-dw.cc', 'dwcst.cc', 'value-aset.cc', 'coverage.cc',
       'value-str.cc', 'value-seq.cc', 'stack.cc', 'op.cc', 'scon.cc', 'layout.cc', 'overload.cc', 'selector.cc', 'builtin.cc', 'docstring.cc',
       'value-closure.cc', 'builtin-closure.cc', 'pred_result.cc', 'dwfl_context.cc', 'cache.cc', 'dwit.cc', 'value-symbol.cc']

def modules(ctx):
    m = V.Module(ctx, 'c17', TUS, 'c17.cc', ['c17_operands'], native_tus=V.ALL_CORE + V.ALL_DW, native_libs=V.ALL_LIBS,
                 empties=('_ZN10value_type13register_type',), fno_access=False)
    m.kf_defs = ['VP_KF_' + k['id'] for k in V.load_known('C17') if 'id' in k]
    return {'c17': m}

def run(ctx):
    m = modules(ctx)['c17']
    for k in V.load_known('C17'):
        ctx.known.append(k['text'].split(' ', 1)[1])
    ctx.bounds.update(opcodes='all 256 opcode values, one scenario each', operands='number, number2, offset fully symbolic 64-bit')
    ctx.assumptions += ['opcodes whose operands are resolved by libdw (implicit_value, implicit_pointer, entry_value, const_type, GNU twins) are skipped',
                        'location lists, element numbering, ?OP_x and abbreviations are NOT covered (libdw model not built)', 'operator new never fails']
    chunk = 8
    jobs = []
    for lo in range(0, 256, chunk):
        jobs.append(lambda lo=lo: V.run_entry(ctx, m, 'c17_operands', 8, timeout=900, bounds='opcodes [%d,%d)' % (lo, lo + chunk), object_bits=12,
                                              cdefs=('VP_LO=%d' % lo, 'VP_HI=%d' % (lo + chunk)), label='c17_operands[%d:%d]' % (lo, lo + chunk),
                                              tv_seeds=0, harness_unwind=chunk + 20))
    V.run_parallel(jobs, workers=15)

def replay(ctx, js):
    return V.generic_replay(ctx, modules(ctx), js)
