"""C11 (kernel) -- overload selection reads only the values near the top: stack profile + selector (DESIGN 0.3)"""
import vpcheck as V

LEVEL_TEXT = ("bounded symbolic model checking of stack::push/pop/drop with the cached type profile and of selector construction and "
              "matching (stack.hh, selector.hh/.cc lowered from clang IR): one step from a stack of every depth 0..6 whose slots have "
              "symbolic type codes, against a list model; selectors of 1..4 symbolic type codes (0 = any)")

TUS = ['stack.cc', 'selector.cc', 'value.cc']
OPS = {'push': range(0, 6), 'pop': range(1, 7), 'drop': range(0, 7), 'select': range(0, 7)}

def modules(ctx):
    ents = ['c11_%s_d%d' % (op, n) for op, r in OPS.items() for n in r]
    m = V.Module(ctx, 'c11', TUS, 'c11.cc', ents, native_tus=V.ALL_CORE, native_libs=('-ldl',),
                 empties=('_ZN10value_type13register_type',))
    return {'c11': m}

def run(ctx):
    m = modules(ctx)['c11']
    ctx.bounds.update(depth='every depth 0..6 (one harness each)', codes='type codes symbolic in 1..127, selector codes 0..127',
                      ops='one push / pop / drop(k), k symbolic in 0..depth; histories longer than one step follow by induction over the list model')
    ctx.assumptions += ['values are harness objects with an arbitrary type code (value_any)', 'operator new never fails',
                        'the word implementations (length, elem, add, ?find, ...) are NOT covered by this check (MANIFEST level_note)']
    plan = [('c11_%s_d%d' % (op, n), 12, 600, 'depth %d, symbolic type codes' % n) for op, r in OPS.items() for n in r]
    if ctx.tier == 'quick':
        plan = [p for p in plan if not p[0].endswith(('_d1', '_d2')) or 'select' in p[0]]
    V.run_simple(ctx, m, plan, object_bits=12, tv_seeds=1)

def replay(ctx, js):
    return V.generic_replay(ctx, modules(ctx), js)
