/* std::operator+(std::string&&, char const*) as used to build exception messages: the message
   text is not modelled (DESIGN 0.6), so the result is the left operand moved, nothing appended.
   Keeps the error paths of parse_int free of symbolic-length string appends. */
#include "vp_prelude.h"
typedef struct vp_std_string2 { char *p; uint64_t n; union { char buf[16]; uint64_t cap; } u; } vp_std_string2;
void _ZStplIcSt11char_traitsIcESaIcEENSt7__cxx1112basic_stringIT_T0_T1_EEOS8_PKS5_(void *ret, void *lhs, void *rhs)
{
  vp_std_string2 *r = (vp_std_string2 *)ret, *l = (vp_std_string2 *)lhs;
  (void)rhs;
  if (l->p == l->u.buf)
    {
      r->p = r->u.buf;
      for (unsigned i = 0; i < 16; ++i) r->u.buf[i] = l->u.buf[i];
    }
  else
    {
      r->p = l->p;
      r->u.cap = l->u.cap;
    }
  r->n = l->n;
  l->p = l->u.buf;
  l->n = 0;
  l->u.buf[0] = 0;
}
