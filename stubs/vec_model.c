/* Model of libstdc++'s std::vector<cov_range>::_M_realloc_insert (both value categories):
   new storage with a fixed capacity of 8 elements, elements copied around the insertion
   point, old storage released.  The growth policy is not observable; what is modelled is
   the container semantics.  Used where the code under test grows a vector a symbolic
   number of times (coverage::intersect, operator+/-), which CBMC cannot follow through the
   real reallocation code (symbolic allocation sizes).  More than 7 elements: assertion. */
#include "vp_prelude.h"
#include <stdlib.h>
typedef struct vp_cov_range { uint64_t start, length; } vp_cov_range;
typedef struct vp_vec_cr { vp_cov_range *s, *f, *e; } vp_vec_cr;
static void vp_vec_cr_realloc_insert(void *self, void *pos, void *x)
{
  vp_vec_cr *v = (vp_vec_cr *)self;
  vp_cov_range *ns = (vp_cov_range *)malloc(sizeof(vp_cov_range) * 8);
  VP_ASSUME(ns != 0);
  uint64_t n = VP_PTRDIFF(v->f, v->s) / sizeof(vp_cov_range);
  uint64_t k = VP_PTRDIFF((vp_cov_range *)pos, v->s) / sizeof(vp_cov_range);
  VP_ASSERT(n < 8 && k <= n, "vector model: at most 7 elements before an insertion");
  vp_cov_range nv = *(vp_cov_range *)x;
  for (uint64_t i = 0; i < 8; ++i)
    if (i < k)
      ns[i] = v->s[i];
  ns[k] = nv;
  for (uint64_t i = 0; i < 8; ++i)
    if (i >= k && i < n)
      ns[i + 1] = v->s[i];
  if (v->s != 0)
    free(v->s);
  v->s = ns;
  v->f = ns + n + 1;
  v->e = ns + 8;
}
void _ZNSt6vectorI9cov_rangeSaIS0_EE17_M_realloc_insertIJRKS0_EEEvN9__gnu_cxx17__normal_iteratorIPS0_S2_EEDpOT_(void *self, void *pos, void *x)
{ vp_vec_cr_realloc_insert(self, pos, x); }
void _ZNSt6vectorI9cov_rangeSaIS0_EE17_M_realloc_insertIJS0_EEEvN9__gnu_cxx17__normal_iteratorIPS0_S2_EEDpOT_(void *self, void *pos, void *x)
{ vp_vec_cr_realloc_insert(self, pos, x); }
