/* std::ostream / std::stringstream as a FORMATTING byte sink (C20 radix kernel).  As ostream_capture.c, plus:
   - the stream objects get a model vtable (only the virtual-base offset slot is meaningful) and an ios_base
     part with libstdc++'s initial state (flags dec|skipws, width 0), so that the real inline code --
     ios_base::flags / setf, std::hex / oct / showbase, ios_flag_saver -- runs on real fields;
   - unsigned insertion formats per basefield/showbase/uppercase exactly as libstdc++'s num_put does for
     width 0: hex and oct by shifts ("0x"/"0" prefix under showbase only for non-zero values), decimal as an
     UNINTERPRETED 20-byte function of the value (same value => same bytes; lemma table) because the kernel
     proves which (sign, magnitude, flags) reach the stream, not libstdc++'s decimal conversion;
   - to keep lengths concrete the harness announces the expected digit count / text length (vp_fmt_hint_*);
     a mismatch is reported as an assertion failure, never assumed away.
   Layout facts (libstdc++ x86-64): stringstream = { istream{vptr,gcount} @0, ostream{vptr} @16, stringbuf, ios @128 },
   ios_base = { vptr, precision @8, width @16, flags @24 }. */
#include "vp_prelude.h"
typedef struct vp_std_string { char *p; uint64_t n; union { char buf[16]; uint64_t cap; } u; } vp_std_string;
#include <stdlib.h>
static unsigned vp_hint_digits, vp_hint_len;
static char vp_fill = ' ';
static char vp_cap[128]; static uint64_t vp_cap_n;
static void vp_cap_put(char c) { if (vp_cap_n < 127) vp_cap[vp_cap_n++] = c; }
static void vp_cap_puts(const char *s) { if (s == 0) return; for (unsigned i = 0; i < 100; ++i) { if (s[i] == 0) break; vp_cap_put(s[i]); } }
static void vp_string_empty(void *s)
{
  /* str(): the captured bytes */
  vp_std_string *x = (vp_std_string *)s;
  VP_ASSERT(vp_cap_n == vp_hint_len, "stream model expectation: rendering has the announced length");
  VP_ASSUME(vp_cap_n == vp_hint_len);
  uint64_t n = vp_hint_len;
  if (n < 16) x->p = x->u.buf;
  else { x->p = (char *)malloc(128); VP_ASSUME(x->p != 0); x->u.cap = 127; }
  for (unsigned i = 0; i < 128; ++i) if (i < n) x->p[i] = vp_cap[i];
  x->p[n] = 0;
  x->n = n;
}

static int64_t vp_vt_is[4], vp_vt_os[4];
void vp_fmt_hint_digits(unsigned k) { vp_hint_digits = k; }
void vp_fmt_hint_len(unsigned n) { vp_hint_len = n; }
static void vp_ios_init(char *ios) { *(uint64_t *)(ios + 8) = 6; *(uint64_t *)(ios + 16) = 0; *(uint32_t *)(ios + 24) = 0x1002; }
void _ZNSt7__cxx1118basic_stringstreamIcSt11char_traitsIcESaIcEEC1Ev(void *ss)
{
  vp_cap_n = 0; vp_fill = ' ';
  vp_vt_is[0] = 128; vp_vt_os[0] = 112;
  *(void **)ss = &vp_vt_is[3];
  *(void **)((char *)ss + 16) = &vp_vt_os[3];
  vp_ios_init((char *)ss + 128);
}
static uint32_t vp_os_flags(void *o) { int64_t off = ((int64_t *)(*(void **)o))[-3]; return *(uint32_t *)((char *)o + off + 24); }
static uint64_t vp_os_width(void *o) { int64_t off = ((int64_t *)(*(void **)o))[-3]; return *(uint64_t *)((char *)o + off + 16); }
/* decimal digits: uninterpreted, functionally consistent */
static uint64_t vp_dv[6]; static char vp_db[6][20]; static unsigned vp_dn;
char nondet_vp_decdigit(void);
uint32_t vp_fmt_dec(void *buf_, uint64_t v)
{
  char *buf = (char *)buf_;
  for (unsigned j = 0; j < 6; ++j)
    if (j < vp_dn && vp_dv[j] == v) { for (unsigned i = 0; i < 20; ++i) buf[i] = vp_db[j][i]; return 20; }
  VP_ASSERT(vp_dn < 6, "decimal lemma table overflow (bound)");
  VP_ASSUME(vp_dn < 6);
  for (unsigned i = 0; i < 20; ++i) { char c = nondet_vp_decdigit(); VP_ASSUME(c >= '0' && c <= '9'); vp_db[vp_dn][i] = c; buf[i] = c; }
  vp_dv[vp_dn++] = v;
  return 20;
}
static void vp_put_unsigned(void *o, uint64_t v)
{
  uint32_t fl = vp_os_flags(o);
  uint64_t width = vp_os_width(o);
  VP_ASSERT(width <= 8, "stream model: width <= 8 (bound)");
  VP_ASSERT((fl & 0x30) == 0, "stream model: right adjustment only");      /* left|internal (adjustfield) not modelled */
  uint32_t base = fl & 0x4a;
  if (base == 8 || base == 0x40)
    {
      unsigned sh = base == 8 ? 4 : 3;
      unsigned k = vp_hint_digits;
      if (k == 0)
        {
          /* no announcement: count the digits (symbolic length; only for harnesses without heap-side strings) */
          k = 1;
          for (unsigned i = 1; i < 22; ++i)
            if (i * sh < 64 && (v >> (i * sh)) != 0)
              k = i + 1;
        }
      /* the value has exactly k digits in this radix (k announced by the harness) */
      _Bool fits = (k * sh >= 64 || (v >> (k * sh)) == 0) && (k == 1 || (v >> ((k - 1) * sh)) != 0) && k >= 1 && k <= 22;
      VP_ASSERT(fits, "stream model expectation: number reaching the stream has the announced digit count");
      VP_ASSUME(fits);
      unsigned total = k + (((fl & 0x200) && v != 0) ? (base == 8 ? 2 : 1) : 0);
      for (unsigned i = 0; i < 8; ++i)
        if (total + i < width)
          vp_cap_put(vp_fill);
      if ((fl & 0x200) && v != 0) { vp_cap_put('0'); if (base == 8) vp_cap_put((fl & 0x4000) ? 'X' : 'x'); }
      for (unsigned i = 0; i < 22; ++i)
        if (i < k)
          {
            unsigned d = (unsigned)((v >> ((k - 1 - i) * sh)) & ((1u << sh) - 1));
            vp_cap_put((char)(d < 10 ? '0' + d : ((fl & 0x4000) ? 'A' : 'a') + d - 10));
          }
    }
  else
    {
      char buf[20];
      VP_ASSERT(width == 0, "stream model: no width for decimal numbers");
      vp_fmt_dec(buf, v);
      for (unsigned i = 0; i < 20; ++i) vp_cap_put(buf[i]);
    }
  /* num_put resets the width */
  { int64_t off = ((int64_t *)(*(void **)o))[-3]; *(uint64_t *)((char *)o + off + 16) = 0; }
}
void _ZNSt7__cxx1118basic_stringstreamIcSt11char_traitsIcESaIcEED1Ev(void *ss) { (void)ss; }
void _ZNSt7__cxx1119basic_ostringstreamIcSt11char_traitsIcESaIcEEC1Ev(void *ss) { (void)ss; vp_cap_n = 0; }
void _ZNSt7__cxx1119basic_ostringstreamIcSt11char_traitsIcESaIcEED1Ev(void *ss) { (void)ss; }
void _ZNKSt7__cxx1118basic_stringstreamIcSt11char_traitsIcESaIcEE3strEv(void *ret, void *ss) { (void)ss; vp_string_empty(ret); }
void _ZNKSt7__cxx1119basic_ostringstreamIcSt11char_traitsIcESaIcEE3strEv(void *ret, void *ss) { (void)ss; vp_string_empty(ret); }
void *_ZStlsISt11char_traitsIcEERSt13basic_ostreamIcT_ES5_PKc(void *o, void *s) { vp_cap_puts((const char *)s); return o; }
void *_ZStlsISt11char_traitsIcEERSt13basic_ostreamIcT_ES5_c(void *o, uint8_t c) { vp_cap_put((char)c); return o; }
void *_ZStlsIcSt11char_traitsIcESaIcEERSt13basic_ostreamIT_T0_ES7_RKNSt7__cxx1112basic_stringIS4_S5_T1_EE(void *o, void *s)
{ vp_std_string *x = (vp_std_string *)s; for (unsigned i = 0; i < 100; ++i) if (i < x->n) vp_cap_put(x->p[i]); return o; }
/* direct access to the captured text for harnesses that avoid heap-side strings */
uint32_t vp_cap_len(void) { return (uint32_t)vp_cap_n; }
uint8_t vp_cap_at(uint32_t i) { return i < vp_cap_n ? (uint8_t)vp_cap[i] : 0; }
/* <cctype>: C / UTF-8 locale */
int vp_libc_isprint(int c) { return c >= 0x20 && c <= 0x7e; }
void *_ZSt16__ostream_insertIcSt11char_traitsIcEERSt13basic_ostreamIT_T0_ES6_PKS3_l(void *o, void *s, uint64_t n) { for (unsigned i = 0; i < 100; ++i) if (i < n) vp_cap_put(((const char *)s)[i]); return o; }
void *_ZNSolsEm(void *o, uint64_t v) { vp_put_unsigned(o, v); return o; }
static void vp_put_signed(void *o, int64_t v, unsigned bits);
void *_ZNSolsEl(void *o, uint64_t v) { vp_put_signed(o, (int64_t)v, 64); return o; }
void *_ZNSolsEi(void *o, uint32_t v) { vp_put_signed(o, (int64_t)(int32_t)v, 32); return o; }
void *_ZNSolsEj(void *o, uint32_t v) { vp_put_unsigned(o, v); return o; }
void *_ZNSo9_M_insertIbEERSoT_(void *o, _Bool v);
void *_ZNSolsEb(void *o, _Bool v) { return _ZNSo9_M_insertIbEERSoT_(o, v); }
void *_ZNSolsEPKv(void *o, void *v) { (void)v; return o; }
void *_ZNSo9_M_insertImEERSoT_(void *o, uint64_t v) { vp_put_unsigned(o, v); return o; }
void *_ZNSo9_M_insertIlEERSoT_(void *o, uint64_t v) { vp_put_signed(o, (int64_t)v, 64); return o; }
void *_ZNSo9_M_insertIbEERSoT_(void *o, _Bool v) { if (vp_os_flags(o) & 1) vp_cap_puts(v ? "true" : "false"); else vp_cap_put(v ? '1' : '0'); return o; }
void *_ZNSo3putEc(void *o, uint8_t c) { (void)c; return o; }
void *_ZNSo5flushEv(void *o) { return o; }
void *_ZSt4endlIcSt11char_traitsIcEERSt13basic_ostreamIT_T0_ES6_(void *o) { return o; }
uint8_t _ZNKSt9basic_iosIcSt11char_traitsIcEE4fillEv(void *ios) { (void)ios; return (uint8_t)vp_fill; }
uint8_t _ZNSt9basic_iosIcSt11char_traitsIcEE4fillEc(void *ios, uint8_t c) { (void)ios; uint8_t old = (uint8_t)vp_fill; vp_fill = (char)c; return old; }
/* operator<<(ios_base&(*)(ios_base&)) is defined in harness/support_ios.cc (it has to call the real manipulator) */
void *_ZNSolsEPFRSoS_E(void *o, void *manip) { (void)manip; return o; }
/* signed insertion: decimal = sign and magnitude; hex / oct = the two's complement of the operand's width (as num_put does) */
static void vp_put_signed(void *o, int64_t v, unsigned bits)
{
  uint32_t fl = vp_os_flags(o);
  uint32_t base = fl & 0x4a;
  VP_ASSERT((fl & 0x800) == 0, "stream model: showpos not modelled");
  if (base == 8 || base == 0x40)
    vp_put_unsigned(o, bits == 32 ? (uint64_t)(uint32_t)v : (uint64_t)v);
  else
    {
      VP_ASSERT(vp_os_width(o) == 0, "stream model: no width for decimal numbers");
      if (v < 0) { vp_cap_put('-'); vp_put_unsigned(o, (uint64_t)0 - (uint64_t)v); }
      else vp_put_unsigned(o, (uint64_t)v);
    }
}
/* <iomanip>: setw / setfill are extern templates for char */
void *_ZStlsIcSt11char_traitsIcEERSt13basic_ostreamIT_T0_ES6_St5_Setw(void *o, uint32_t w)
{ int64_t off = ((int64_t *)(*(void **)o))[-3]; *(uint64_t *)((char *)o + off + 16) = (uint64_t)(int64_t)(int32_t)w; return o; }
void *_ZStlsIcSt11char_traitsIcEERSt13basic_ostreamIT_T0_ES6_St8_SetfillIS3_E(void *o, uint8_t c) { vp_fill = (char)c; return o; }
