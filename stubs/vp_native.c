/* native side of the harness primitives: replay of a nondet value list.
   Used (a) by the natively compiled C++ harness linked with the real repo objects
   (replay of counterexamples / witnesses) and (b) by the gcc build of the generated C
   (translation validation).  Values come from the file named by $VP_REPLAY (one
   unsigned decimal per line); when exhausted, from a xorshift PRNG seeded by
   $VP_SEED (0 => zeros). */
#include <stdio.h>
#include <stdlib.h>
#include <stdint.h>
#include <string.h>
#include <dlfcn.h>

static uint64_t *vals; static size_t nvals, pos; static uint64_t rng; static int loaded;
static FILE *logf;
static void load(void)
{
  if (loaded) return;
  loaded = 1;
  logf = stdout;
  const char *p = getenv("VP_REPLAY");
  if (p) {
    FILE *f = fopen(p, "r");
    if (!f) { fprintf(stderr, "vp_native: cannot open %s\n", p); exit(3); }
    unsigned long long v; size_t cap = 0;
    while (fscanf(f, "%llu", &v) == 1) {
      if (nvals == cap) { cap = cap ? cap * 2 : 64; vals = realloc(vals, cap * sizeof *vals); }
      vals[nvals++] = v;
    }
    fclose(f);
  }
  const char *s = getenv("VP_SEED");
  rng = s ? strtoull(s, 0, 10) : 0;
}
static uint64_t nextv(int bits)
{
  load();
  uint64_t v;
  if (pos < nvals) v = vals[pos++];
  else if (rng == 0) v = 0;
  else {
    rng ^= rng << 13; rng ^= rng >> 7; rng ^= rng << 17; v = rng;
    /* bias towards small and boundary values */
    switch ((rng >> 60) & 7) { case 0: v &= 3; break; case 1: v &= 0xff; break; case 2: v = ~(v & 3); break; case 3: v = (1ULL << (v & 63)) - ((v >> 8) & 1); break; default: break; }
    pos++;
  }
  if (bits < 64) v &= (1ULL << bits) - 1;
  return v;
}
uint64_t vp_nondet_u64(void) { return nextv(64); }
uint32_t vp_nondet_u32(void) { return (uint32_t)nextv(32); }
uint16_t vp_nondet_u16(void) { return (uint16_t)nextv(16); }
uint8_t vp_nondet_u8(void) { return (uint8_t)nextv(8); }
_Bool vp_nondet_bool(void) { return nextv(8) & 1; }
void vp_assume(_Bool c) { load(); if (!c) { fprintf(logf, "VP_ASSUME_FAIL\n"); fflush(logf); exit(11); } }
void vp_assert(_Bool c, const char *id) { load(); if (!c) { fprintf(logf, "VP_ASSERT_FAIL P: %s\n", id); fflush(logf); exit(10); } }
void vp_witness(const char *id) { load(); fprintf(logf, "VP_WITNESS %s\n", id); fflush(logf); }
void vp_cover(_Bool c, const char *id) { load(); if (c) fprintf(logf, "VP_COVER %s\n", id); }
void vp_rank_register(const void *p, uint64_t rank) { (void)p; (void)rank; }
uint64_t vp_native_rank(unsigned i) { return i; }
/* stream-model helpers of stubs/ostream_fmt.c: natively the real libstdc++ formats */
void vp_fmt_hint_digits(unsigned k) { (void)k; }
void vp_fmt_hint_len(unsigned n) { (void)n; }
unsigned vp_fmt_dec(char *buf, uint64_t v) { return (unsigned)sprintf(buf, "%llu", (unsigned long long)v); }
uint64_t vp_range_lo(void) { return 0; }
uint64_t vp_range_hi(void) { return ~0ULL; }
void vp_observe(uint64_t v) { load(); fprintf(logf, "VP_OBS %llu\n", (unsigned long long)v); }
/* used by generated C in native mode */
void vp_native_fail(const char *kind, const char *msg) { load(); fprintf(logf, "VP_%s_FAIL %s\n", kind, msg); fflush(logf); exit(strcmp(kind, "UB") == 0 ? 12 : 10); }
void vp_native_assume_fail(void) { load(); fprintf(logf, "VP_ASSUME_FAIL\n"); fflush(logf); exit(11); }
void vp_native_witness(const char *id) { vp_witness(id); }
#ifndef VP_GENC
/* real build: no lowered module, nothing to initialise, exceptions are real */
void __vp_init(void) {}
_Bool vp_exc_pending(void) { return 0; }
void vp_exc_clear(void) {}
#endif
int main(int argc, char **argv)
{
  if (argc < 2) { fprintf(stderr, "usage: %s <entry>\n", argv[0]); return 2; }
  void (*fn)(void) = (void (*)(void))dlsym(RTLD_DEFAULT, argv[1]);
  if (!fn) { fprintf(stderr, "no entry %s\n", argv[1]); return 2; }
  load();
  fn();
  fprintf(logf, "VP_DONE\n");
  return 0;
}
