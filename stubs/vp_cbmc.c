/* CBMC side of the harness primitives: every nondet value passes through a local
   named vp_nd_value so that the counterexample trace lists them in call order */
#include "vp_prelude.h"
#ifdef __CPROVER__
uint64_t nondet_u64(void); uint32_t nondet_u32(void); uint16_t nondet_u16(void); uint8_t nondet_u8(void); _Bool nondet_b(void);
uint64_t vp_nondet_u64(void) { uint64_t vp_nd_value = nondet_u64(); return vp_nd_value; }
uint32_t vp_nondet_u32(void) { uint32_t vp_nd_value = nondet_u32(); return vp_nd_value; }
uint16_t vp_nondet_u16(void) { uint16_t vp_nd_value = nondet_u16(); return vp_nd_value; }
uint8_t vp_nondet_u8(void) { uint8_t vp_nd_value = nondet_u8(); return vp_nd_value; }
_Bool vp_nondet_bool(void) { uint8_t vp_nd_value = nondet_u8(); __CPROVER_assume(vp_nd_value <= 1); return vp_nd_value; }
void vp_observe(uint64_t v) { (void)v; }
#ifndef VP_LO
#define VP_LO 0
#endif
#ifndef VP_HI
#define VP_HI 0xffffffffffffffffULL
#endif
uint64_t vp_range_lo(void) { return VP_LO; }
uint64_t vp_range_hi(void) { return VP_HI; }
#endif
#ifdef __CPROVER__
#define VP_MULTAB 8
static uint64_t vp_ma[VP_MULTAB], vp_mb[VP_MULTAB];
static vp_u128 vp_mt[VP_MULTAB];
static unsigned vp_mn;
vp_u128 vp_mul64x64(uint64_t a, uint64_t b)
{
  vp_u128 t = (vp_u128)a * (vp_u128)b;
  for (unsigned j = 0; j < VP_MULTAB; ++j)
    if (j < vp_mn && ((a == vp_ma[j] && b == vp_mb[j]) || (a == vp_mb[j] && b == vp_ma[j])))
      __CPROVER_assume(t == vp_mt[j]);           /* a true fact: functional consistency */
  if (vp_mn < VP_MULTAB) { vp_ma[vp_mn] = a; vp_mb[vp_mn] = b; vp_mt[vp_mn] = t; vp_mn++; }
  return t;
}
/* q = a / b, r = a % b are introduced by their defining identity q*b + r == a, r < b
   (unique for b != 0; the translator asserts b != 0 before every call), with the
   product routed through the lemma table -- no divider circuit is built.  A second
   table makes a / b and a % b on the same operands share q and r. */
uint64_t nondet_u64(void);
static uint64_t vp_da[VP_MULTAB], vp_db[VP_MULTAB], vp_dq[VP_MULTAB], vp_dr[VP_MULTAB];
static unsigned vp_dn;
static void vp_divrem64(uint64_t a, uint64_t b, uint64_t *q, uint64_t *r)
{
#ifdef VP_DIV_BY_IDENTITY
  uint64_t qq = nondet_u64(), rr = nondet_u64();
#else
  /* default: ordinary division (constant-folds for concrete operands); the identity below is
     then a redundant lemma */
  uint64_t qq = a / b, rr = a % b;
#endif
  for (unsigned j = 0; j < VP_MULTAB; ++j)
    if (j < vp_dn && a == vp_da[j] && b == vp_db[j])
      __CPROVER_assume(qq == vp_dq[j] && rr == vp_dr[j]);
  vp_u128 t = vp_mul64x64(qq, b);
  __CPROVER_assume(t + rr == (vp_u128)a && rr < b);
  if (vp_dn < VP_MULTAB) { vp_da[vp_dn] = a; vp_db[vp_dn] = b; vp_dq[vp_dn] = qq; vp_dr[vp_dn] = rr; vp_dn++; }
  *q = qq; *r = rr;
}
uint64_t vp_udiv64(uint64_t a, uint64_t b) { uint64_t q, r; vp_divrem64(a, b, &q, &r); return q; }
uint64_t vp_urem64(uint64_t a, uint64_t b) { uint64_t q, r; vp_divrem64(a, b, &q, &r); return r; }
#else
vp_u128 vp_mul64x64(uint64_t a, uint64_t b) { return (vp_u128)a * (vp_u128)b; }
uint64_t vp_udiv64(uint64_t a, uint64_t b) { return a / b; }
uint64_t vp_urem64(uint64_t a, uint64_t b) { return a % b; }
#endif
#ifdef __CPROVER__
/* rank table for the pointer order of distinct objects (C09): registered by the harness */
#define VP_NRANK 24
static const void *vp_rk_obj[VP_NRANK];
static uint64_t vp_rk_val[VP_NRANK];
static unsigned vp_rk_n;
void vp_rank_register(void *p, uint64_t rank)
{
  if (vp_rk_n < VP_NRANK) { vp_rk_obj[vp_rk_n] = p; vp_rk_val[vp_rk_n] = rank; vp_rk_n++; }
}
uint64_t vp_obj_rank(const void *p)
{
  for (unsigned i = 0; i < VP_NRANK; ++i)
    if (i < vp_rk_n && __CPROVER_same_object(p, vp_rk_obj[i]))
      return vp_rk_val[i];
  return 1000 + (VP_PTR2INT(p) >> 40);     /* unregistered objects: after the pool, by object number */
}
#ifndef VP_NATIVE_RANKS
#define VP_NATIVE_RANKS 0
#endif
uint64_t vp_native_rank(uint32_t i)
{
  static const uint64_t r[] = { VP_NATIVE_RANKS };
  return i < sizeof r / sizeof r[0] ? r[i] : 100 + i;
}
#endif
_Bool vp_exc_pending(void) { return __vp_exc.pending != 0; }
void vp_exc_clear(void)
{
  /* drop a propagating exception (harness caught it "by hand") */
  if (__vp_exc.pending) {
    __vp_exc.pending = 0;
    void vp_call_dtor(void *dtor, void *obj);
    if (__vp_exc.dtor) vp_call_dtor(__vp_exc.dtor, __vp_exc.object);
    void free(void *);
    free(__vp_exc.object);
    __vp_exc.object = 0;
  }
}
