/* CBMC side of the harness primitives: every nondet value passes through a local
   named vp_nd_value so that the counterexample trace lists them in call order */
#include "vp_prelude.h"
#ifdef __CPROVER__
uint64_t nondet_u64(void); uint32_t nondet_u32(void); uint16_t nondet_u16(void); uint8_t nondet_u8(void); _Bool nondet_b(void);
uint64_t vp_nondet_u64(void) { uint64_t vp_nd_value = nondet_u64(); return vp_nd_value; }
uint32_t vp_nondet_u32(void) { uint32_t vp_nd_value = nondet_u32(); return vp_nd_value; }
uint16_t vp_nondet_u16(void) { uint16_t vp_nd_value = nondet_u16(); return vp_nd_value; }
uint8_t vp_nondet_u8(void) { uint8_t vp_nd_value = nondet_u8(); return vp_nd_value; }
_Bool vp_nondet_bool(void) { uint8_t vp_nd_value = nondet_u8(); __CPROVER_assume(vp_nd_value <= 1); return vp_nd_value; }
void vp_observe(uint64_t v) { (void)v; }
#endif
_Bool vp_exc_pending(void) { return __vp_exc.pending != 0; }
void vp_exc_clear(void)
{
  /* drop a propagating exception (harness caught it "by hand") */
  if (__vp_exc.pending) {
    __vp_exc.pending = 0;
    void vp_call_dtor(void *dtor, void *obj);
    if (__vp_exc.dtor) vp_call_dtor(__vp_exc.dtor, __vp_exc.object);
    void free(void *);
    free(__vp_exc.object);
    __vp_exc.object = 0;
  }
}
