/* std::ostream / std::stringstream as a null sink (DESIGN 5.4, second sentence):
   insertion returns the stream, str() returns the empty string.  Used wherever
   formatted output is not the subject of the property (diagnostics, name()). */
#include "vp_prelude.h"
typedef struct vp_std_string { char *p; uint64_t n; union { char buf[16]; uint64_t cap; } u; } vp_std_string;
static void vp_string_empty(void *s) { vp_std_string *x = (vp_std_string *)s; x->p = x->u.buf; x->n = 0; x->u.buf[0] = 0; }

void _ZNSt7__cxx1118basic_stringstreamIcSt11char_traitsIcESaIcEEC1Ev(void *ss) { (void)ss; }
void _ZNSt7__cxx1118basic_stringstreamIcSt11char_traitsIcESaIcEED1Ev(void *ss) { (void)ss; }
void _ZNSt7__cxx1119basic_ostringstreamIcSt11char_traitsIcESaIcEEC1Ev(void *ss) { (void)ss; }
void _ZNSt7__cxx1119basic_ostringstreamIcSt11char_traitsIcESaIcEED1Ev(void *ss) { (void)ss; }
void _ZNKSt7__cxx1118basic_stringstreamIcSt11char_traitsIcESaIcEE3strEv(void *ret, void *ss) { (void)ss; vp_string_empty(ret); }
void _ZNKSt7__cxx1119basic_ostringstreamIcSt11char_traitsIcESaIcEE3strEv(void *ret, void *ss) { (void)ss; vp_string_empty(ret); }
void *_ZStlsISt11char_traitsIcEERSt13basic_ostreamIcT_ES5_PKc(void *o, void *s) { (void)s; return o; }
void *_ZStlsISt11char_traitsIcEERSt13basic_ostreamIcT_ES5_c(void *o, uint8_t c) { (void)c; return o; }
void *_ZStlsIcSt11char_traitsIcESaIcEERSt13basic_ostreamIT_T0_ES7_RKNSt7__cxx1112basic_stringIS4_S5_T1_EE(void *o, void *s) { (void)s; return o; }
void *_ZSt16__ostream_insertIcSt11char_traitsIcEERSt13basic_ostreamIT_T0_ES6_PKS3_l(void *o, void *s, uint64_t n) { (void)s; (void)n; return o; }
void *_ZNSolsEm(void *o, uint64_t v) { (void)v; return o; }
void *_ZNSolsEl(void *o, uint64_t v) { (void)v; return o; }
void *_ZNSolsEi(void *o, uint32_t v) { (void)v; return o; }
void *_ZNSolsEj(void *o, uint32_t v) { (void)v; return o; }
void *_ZNSolsEb(void *o, _Bool v) { (void)v; return o; }
void *_ZNSolsEPKv(void *o, void *v) { (void)v; return o; }
void *_ZNSo9_M_insertImEERSoT_(void *o, uint64_t v) { (void)v; return o; }
void *_ZNSo9_M_insertIlEERSoT_(void *o, uint64_t v) { (void)v; return o; }
void *_ZNSo9_M_insertIbEERSoT_(void *o, _Bool v) { (void)v; return o; }
void *_ZNSo3putEc(void *o, uint8_t c) { (void)c; return o; }
void *_ZNSo5flushEv(void *o) { return o; }
void *_ZSt4endlIcSt11char_traitsIcEERSt13basic_ostreamIT_T0_ES6_(void *o) { return o; }
uint8_t _ZNKSt9basic_iosIcSt11char_traitsIcEE4fillEv(void *ios) { (void)ios; return ' '; }
uint8_t _ZNSt9basic_iosIcSt11char_traitsIcEE4fillEc(void *ios, uint8_t c) { (void)ios; (void)c; return ' '; }
void *_ZNSolsEPFRSt8ios_baseS0_E(void *o, void *manip) { (void)manip; return o; }
void *_ZNSolsEPFRSoS_E(void *o, void *manip) { (void)manip; return o; }
