/* Model of libstdc++'s std::vector<char>::_M_realloc_insert (both value categories): new storage with a fixed
   capacity of 72 bytes, allocated by the first insertion into an empty vector.  The growth policy
   is not observable; what is modelled is the container semantics.  Used by the C20 radix kernel (bin domain:
   at most 64 digits and a terminator).  More than 71 elements: assertion. */
#include "vp_prelude.h"
#include <stdlib.h>
typedef struct vp_vec_c { char *s, *f, *e; } vp_vec_c;
static void vp_vec_c_realloc_insert(void *self, void *pos, void *x)
{
  vp_vec_c *v = (vp_vec_c *)self;
  /* only the first insertion into an empty vector allocates; a second reallocation would mean more than
     72 elements, reported as an assertion failure (bound of the model) */
  if (v->s != 0)
    {
      VP_ASSERT(0, "vector<char> model: capacity of 72 elements exhausted (bound)");
      VP_ASSUME(0);
    }
  (void)pos;
  char *ns = (char *)malloc(72);
  VP_ASSUME(ns != 0);
  ns[0] = *(char *)x;
  v->s = ns;
  v->f = ns + 1;
  v->e = ns + 72;
}
void _ZNSt6vectorIcSaIcEE17_M_realloc_insertIJcEEEvN9__gnu_cxx17__normal_iteratorIPcS1_EEDpOT_(void *self, void *pos, void *x)
{ vp_vec_c_realloc_insert(self, pos, x); }
void _ZNSt6vectorIcSaIcEE17_M_realloc_insertIJRKcEEEvN9__gnu_cxx17__normal_iteratorIPcS1_EEDpOT_(void *self, void *pos, void *x)
{ vp_vec_c_realloc_insert(self, pos, x); }
