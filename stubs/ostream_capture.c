/* std::ostream / std::stringstream as a BYTE SINK: character and string insertions are appended to one
   global capture buffer (reset by the stringstream constructor), numeric insertions append '#',
   str() returns the captured bytes.  Used where the rendered text is the subject (C18). */
#include "vp_prelude.h"
typedef struct vp_std_string { char *p; uint64_t n; union { char buf[16]; uint64_t cap; } u; } vp_std_string;
#include <stdlib.h>
static char vp_cap[128]; static uint64_t vp_cap_n;
static void vp_cap_put(char c) { if (vp_cap_n < 127) vp_cap[vp_cap_n++] = c; }
static void vp_cap_puts(const char *s) { if (s == 0) return; for (unsigned i = 0; i < 100; ++i) { if (s[i] == 0) break; vp_cap_put(s[i]); } }
static void vp_string_empty(void *s)
{
  /* str(): the captured bytes */
  vp_std_string *x = (vp_std_string *)s;
  uint64_t n = vp_cap_n;
  if (n < 16) x->p = x->u.buf;
  else { x->p = (char *)malloc(128); VP_ASSUME(x->p != 0); x->u.cap = 127; }
  for (unsigned i = 0; i < 128; ++i) if (i < n) x->p[i] = vp_cap[i];
  x->p[n] = 0;
  x->n = n;
}

void _ZNSt7__cxx1118basic_stringstreamIcSt11char_traitsIcESaIcEEC1Ev(void *ss) { (void)ss; vp_cap_n = 0; }
void _ZNSt7__cxx1118basic_stringstreamIcSt11char_traitsIcESaIcEED1Ev(void *ss) { (void)ss; }
void _ZNSt7__cxx1119basic_ostringstreamIcSt11char_traitsIcESaIcEEC1Ev(void *ss) { (void)ss; vp_cap_n = 0; }
void _ZNSt7__cxx1119basic_ostringstreamIcSt11char_traitsIcESaIcEED1Ev(void *ss) { (void)ss; }
void _ZNKSt7__cxx1118basic_stringstreamIcSt11char_traitsIcESaIcEE3strEv(void *ret, void *ss) { (void)ss; vp_string_empty(ret); }
void _ZNKSt7__cxx1119basic_ostringstreamIcSt11char_traitsIcESaIcEE3strEv(void *ret, void *ss) { (void)ss; vp_string_empty(ret); }
void *_ZStlsISt11char_traitsIcEERSt13basic_ostreamIcT_ES5_PKc(void *o, void *s) { vp_cap_puts((const char *)s); return o; }
void *_ZStlsISt11char_traitsIcEERSt13basic_ostreamIcT_ES5_c(void *o, uint8_t c) { vp_cap_put((char)c); return o; }
void *_ZStlsIcSt11char_traitsIcESaIcEERSt13basic_ostreamIT_T0_ES7_RKNSt7__cxx1112basic_stringIS4_S5_T1_EE(void *o, void *s) { (void)s; return o; }
void *_ZSt16__ostream_insertIcSt11char_traitsIcEERSt13basic_ostreamIT_T0_ES6_PKS3_l(void *o, void *s, uint64_t n) { for (unsigned i = 0; i < 100; ++i) if (i < n) vp_cap_put(((const char *)s)[i]); return o; }
void *_ZNSolsEm(void *o, uint64_t v) { (void)v; vp_cap_put('#'); return o; }
void *_ZNSolsEl(void *o, uint64_t v) { (void)v; vp_cap_put('#'); return o; }
void *_ZNSolsEi(void *o, uint32_t v) { (void)v; vp_cap_put('#'); return o; }
void *_ZNSolsEj(void *o, uint32_t v) { (void)v; vp_cap_put('#'); return o; }
void *_ZNSolsEb(void *o, _Bool v) { (void)v; return o; }
void *_ZNSolsEPKv(void *o, void *v) { (void)v; return o; }
void *_ZNSo9_M_insertImEERSoT_(void *o, uint64_t v) { (void)v; vp_cap_put('#'); return o; }
void *_ZNSo9_M_insertIlEERSoT_(void *o, uint64_t v) { (void)v; vp_cap_put('#'); return o; }
void *_ZNSo9_M_insertIbEERSoT_(void *o, _Bool v) { (void)v; return o; }
void *_ZNSo3putEc(void *o, uint8_t c) { (void)c; return o; }
void *_ZNSo5flushEv(void *o) { return o; }
void *_ZSt4endlIcSt11char_traitsIcEERSt13basic_ostreamIT_T0_ES6_(void *o) { return o; }
uint8_t _ZNKSt9basic_iosIcSt11char_traitsIcEE4fillEv(void *ios) { (void)ios; return ' '; }
uint8_t _ZNSt9basic_iosIcSt11char_traitsIcEE4fillEc(void *ios, uint8_t c) { (void)ios; (void)c; return ' '; }
void *_ZNSolsEPFRSt8ios_baseS0_E(void *o, void *manip) { (void)manip; return o; }
void *_ZNSolsEPFRSoS_E(void *o, void *manip) { (void)manip; return o; }
