/* C++ runtime model (DESIGN 5.1).  Compiled together with the generated C; all
   pointer parameters are void* because ll2c erases external signatures.
   Every function here is part of every claim that uses it.

   VP_CANDIDATE lines register stub functions as targets for indirect calls:
   VP_CANDIDATE <name> <ret-shape>(<param-shapes>)                                   */
#include "vp_prelude.h"
#include <stdlib.h>
#include <string.h>

struct vp_exc_state __vp_exc;

/* ---------------------------------------------------------------- allocation */
#ifdef __CPROVER__
#define VP_MALLOC(n) malloc(n)
#else
#define VP_MALLOC(n) malloc((n) ? (n) : 1)
#endif
/* Size-class allocation: CBMC models malloc(n) with a symbolic n as an unbounded array,
   which costs tens of GB in the array decision procedure.  Every request is therefore
   served from the smallest class >= n; with a concrete n (the common case) exactly one
   branch survives symbolic execution.  Consequence: an access past the requested size
   but inside the class slack (< 50%) is not reported as out of bounds. */
static void *vp_alloc(uint64_t n)
{
  void *p;
#ifdef __CPROVER__
  if (n <= 8) p = malloc(8);
  else if (n <= 16) p = malloc(16);
  else if (n <= 24) p = malloc(24);
  else if (n <= 32) p = malloc(32);
  else if (n <= 48) p = malloc(48);
  else if (n <= 64) p = malloc(64);
  else if (n <= 96) p = malloc(96);
  else if (n <= 128) p = malloc(128);
  else if (n <= 192) p = malloc(192);
  else if (n <= 256) p = malloc(256);
  else if (n <= 512) p = malloc(512);
  else if (n <= 1024) p = malloc(1024);
  else if (n <= 4096) p = malloc(4096);
  else { VP_ASSERT(0, "allocation larger than 4096 bytes (outside the modelled sizes)"); VP_ASSUME(0); p = 0; }
#else
  p = malloc(n ? n : 1);
#endif
  VP_ASSUME(p != 0);
  return p;
}
void *_Znwm(uint64_t n) { return vp_alloc(n); }
void *_Znam(uint64_t n) { return vp_alloc(n); }
void _ZdlPv(void *p) { free(p); }
void _ZdlPvm(void *p, uint64_t n) { (void)n; free(p); }
void _ZdaPv(void *p) { free(p); }
void _ZdaPvm(void *p, uint64_t n) { (void)n; free(p); }

/* ---------------------------------------------------------------- type_info */
/* layout of abi::__class_type_info / __si_class_type_info objects */

vp_cxxabi_vt g__ZTVN10__cxxabiv117__class_type_infoE;
vp_cxxabi_vt g__ZTVN10__cxxabiv120__si_class_type_infoE;
vp_cxxabi_vt g__ZTVN10__cxxabiv121__vmi_class_type_infoE;
vp_cxxabi_vt g__ZTVN10__cxxabiv119__pointer_type_infoE;
vp_cxxabi_vt g__ZTVN10__cxxabiv123__fundamental_type_infoE;

#define TI_ROOT(sym, nm) vp_typeinfo sym = { &g__ZTVN10__cxxabiv117__class_type_infoE[2], nm, 0 }
#define TI_SI(sym, nm, base) vp_typeinfo sym = { &g__ZTVN10__cxxabiv120__si_class_type_infoE[2], nm, &base }
TI_ROOT(g__ZTISt9exception, "St9exception");
TI_SI(g__ZTISt11logic_error, "St11logic_error", g__ZTISt9exception);
TI_SI(g__ZTISt12domain_error, "St12domain_error", g__ZTISt11logic_error);
TI_SI(g__ZTISt16invalid_argument, "St16invalid_argument", g__ZTISt11logic_error);
TI_SI(g__ZTISt12length_error, "St12length_error", g__ZTISt11logic_error);
TI_SI(g__ZTISt12out_of_range, "St12out_of_range", g__ZTISt11logic_error);
TI_SI(g__ZTISt13runtime_error, "St13runtime_error", g__ZTISt9exception);
TI_SI(g__ZTISt11range_error, "St11range_error", g__ZTISt13runtime_error);
TI_SI(g__ZTISt14overflow_error, "St14overflow_error", g__ZTISt13runtime_error);
TI_SI(g__ZTISt15underflow_error, "St15underflow_error", g__ZTISt13runtime_error);
TI_SI(g__ZTISt9bad_alloc, "St9bad_alloc", g__ZTISt9exception);
TI_SI(g__ZTISt8bad_cast, "St8bad_cast", g__ZTISt9exception);
TI_SI(g__ZTISt17bad_function_call, "St17bad_function_call", g__ZTISt9exception);
TI_SI(g__ZTISt20bad_array_new_length, "St20bad_array_new_length", g__ZTISt9bad_alloc);
/* a type that is not derived from std::exception, for "foreign" throws (C14) */
TI_ROOT(g_vp_ti_foreign, "vp_foreign");
vp_typeinfo g__ZTIi = { &g__ZTVN10__cxxabiv123__fundamental_type_infoE[2], "i", 0 };
vp_typeinfo g__ZTIPKc = { &g__ZTVN10__cxxabiv119__pointer_type_infoE[2], "PKc", 0 };

int vp_exc_matches(void *catch_tinfo)
{
  vp_typeinfo *ti = (vp_typeinfo *)__vp_exc.tinfo;
  for (int depth = 0; depth < 6; ++depth)
    {
      if (ti == 0)
        return 0;
      if ((void *)ti == catch_tinfo)
        return 1;
      if (ti->vptr != (void *)&g__ZTVN10__cxxabiv120__si_class_type_infoE[2])
        return 0;
      ti = (vp_typeinfo *)ti->base;
    }
  VP_ASSERT(0, "vp_exc_matches: inheritance chain deeper than 6");
  return 0;
}

int vp_typeid_for(void *tinfo)
{
  /* any injective map into positive ints */
  return (int)(VP_PTR2INT(tinfo) >> 3 & 0x3fffffff) | 0x40000000;
}

/* ---------------------------------------------------------------- exceptions */
void *__cxa_allocate_exception(uint64_t n) { return vp_alloc(n); }
void __cxa_free_exception(void *p) { free(p); }

void __cxa_throw(void *obj, void *tinfo, void *dtor)
{
  VP_ASSERT(!__vp_exc.pending, "throw while another exception is propagating (std::terminate)");
  __vp_exc.pending = 1;
  __vp_exc.uncaught++;
  __vp_exc.object = obj;
  __vp_exc.tinfo = tinfo;
  __vp_exc.dtor = dtor;
}

void vp_call_dtor(void *dtor, void *obj);

void *__cxa_begin_catch(void *obj)
{
  VP_ASSERT(__vp_exc.ncaught < 4, "more than 4 nested catch blocks");
  __vp_exc.caught_obj[__vp_exc.ncaught] = __vp_exc.object;
  __vp_exc.caught_tinfo[__vp_exc.ncaught] = __vp_exc.tinfo;
  __vp_exc.caught_dtor[__vp_exc.ncaught] = __vp_exc.dtor;
  __vp_exc.ncaught++;
  __vp_exc.pending = 0;
  if (__vp_exc.uncaught > 0) __vp_exc.uncaught--;
  return obj;
}

void __cxa_end_catch(void)
{
  VP_ASSERT(__vp_exc.ncaught > 0, "__cxa_end_catch without begin");
  __vp_exc.ncaught--;
  void *obj = __vp_exc.caught_obj[__vp_exc.ncaught];
  if (__vp_exc.pending && __vp_exc.object == obj)
    return;                     /* rethrown: stays alive */
  if (__vp_exc.caught_dtor[__vp_exc.ncaught])
    vp_call_dtor(__vp_exc.caught_dtor[__vp_exc.ncaught], obj);
  free(obj);
}

void __cxa_rethrow(void)
{
  VP_ASSERT(__vp_exc.ncaught > 0, "__cxa_rethrow outside catch");
  __vp_exc.pending = 1;
  __vp_exc.uncaught++;
  __vp_exc.object = __vp_exc.caught_obj[__vp_exc.ncaught - 1];
  __vp_exc.tinfo = __vp_exc.caught_tinfo[__vp_exc.ncaught - 1];
  __vp_exc.dtor = __vp_exc.caught_dtor[__vp_exc.ncaught - 1];
}

void _ZSt9terminatev(void) { VP_ASSERT(0, "std::terminate called"); VP_ASSUME(0); }
void __cxa_call_unexpected(void *p) { (void)p; VP_ASSERT(0, "__cxa_call_unexpected (exception specification violated)"); VP_ASSUME(0); }
void __cxa_pure_virtual(void) { VP_ASSERT(0, "pure virtual called"); VP_ASSUME(0); }
void __assert_fail(void *a, void *f, uint32_t l, void *fn)
{ (void)a; (void)f; (void)l; (void)fn; VP_ASSERT(0, "assert() failed in code under test"); VP_ASSUME(0); }

uint32_t __cxa_atexit(void *f, void *a, void *d) { (void)f; (void)a; (void)d; return 0; }
uint8_t g___dso_handle;
uint32_t __cxa_guard_acquire(void *g) { return *(uint8_t *)g == 0; }
void __cxa_guard_release(void *g) { *(uint8_t *)g = 1; }
void __cxa_guard_abort(void *g) { (void)g; }

void _ZNSt8ios_base4InitC1Ev(void *p) { (void)p; }
void _ZNSt8ios_base4InitD1Ev(void *p) { (void)p; }

/* ---------------------------------------------------------------- std exceptions
   object layout: { vptr, char *msg }.  vtable: {0, typeinfo, D1, D0, what} */
typedef struct vp_std_exc { void **vptr; char *msg; } vp_std_exc;
typedef struct vp_std_string { char *p; uint64_t n; union { char buf[16]; uint64_t cap; } u; } vp_std_string;

/* VP_CANDIDATE vp_exc_what p(p) */
void *vp_exc_what(void *self) { return ((vp_std_exc *)self)->msg; }
/* VP_CANDIDATE vp_exc_d1 v(p) */
void vp_exc_d1(void *self) { vp_std_exc *e = (vp_std_exc *)self; e->msg = 0; }
/* VP_CANDIDATE vp_exc_d0 v(p) */
void vp_exc_d0(void *self) { vp_exc_d1(self); free(self); }

#define EXC_VT(sym, ti) vp_std_vt sym = { 0, &ti, (void *)vp_exc_d1, (void *)vp_exc_d0, (void *)vp_exc_what }
EXC_VT(g__ZTVSt9exception, g__ZTISt9exception);
EXC_VT(g__ZTVSt11logic_error, g__ZTISt11logic_error);
EXC_VT(g__ZTVSt12domain_error, g__ZTISt12domain_error);
EXC_VT(g__ZTVSt16invalid_argument, g__ZTISt16invalid_argument);
EXC_VT(g__ZTVSt12length_error, g__ZTISt12length_error);
EXC_VT(g__ZTVSt12out_of_range, g__ZTISt12out_of_range);
EXC_VT(g__ZTVSt13runtime_error, g__ZTISt13runtime_error);
EXC_VT(g__ZTVSt11range_error, g__ZTISt11range_error);
EXC_VT(g__ZTVSt14overflow_error, g__ZTISt14overflow_error);
EXC_VT(g__ZTVSt9bad_alloc, g__ZTISt9bad_alloc);

static char *vp_dup(const char *s, uint64_t n)
{
  char *m = (char *)vp_alloc(n + 1);
  for (uint64_t i = 0; i < n; ++i)
    m[i] = s[i];
  m[n] = 0;
  return m;
}
static uint64_t vp_strlen(const char *s) { uint64_t n = 0; while (s[n]) ++n; return n; }

/* the message text is not modelled (no property depends on its content): what() is a fixed
   non-empty literal for the std::string constructors and the literal itself for char const* */
static void vp_exc_ctor_str(void *self, void *str, void **vt)
{
  vp_std_exc *e = (vp_std_exc *)self;
  (void)str;
  e->vptr = vt + 2;
  e->msg = (char *)"(exception message not modelled)";
}
static void vp_exc_ctor_cstr(void *self, void *cstr, void **vt)
{
  vp_std_exc *e = (vp_std_exc *)self;
  e->vptr = vt + 2;
  e->msg = (char *)cstr;
}
#define EXC_CLASS(mangled_len_name, vt) \
  void _ZNSt##mangled_len_name##C1ERKNSt7__cxx1112basic_stringIcSt11char_traitsIcESaIcEEE(void *self, void *str) { vp_exc_ctor_str(self, str, vt); } \
  void _ZNSt##mangled_len_name##C2ERKNSt7__cxx1112basic_stringIcSt11char_traitsIcESaIcEEE(void *self, void *str) { vp_exc_ctor_str(self, str, vt); } \
  void _ZNSt##mangled_len_name##C1EPKc(void *self, void *s) { vp_exc_ctor_cstr(self, s, vt); } \
  void _ZNSt##mangled_len_name##C2EPKc(void *self, void *s) { vp_exc_ctor_cstr(self, s, vt); } \
  void _ZNSt##mangled_len_name##D1Ev(void *self) { vp_exc_d1(self); } \
  void _ZNSt##mangled_len_name##D2Ev(void *self) { vp_exc_d1(self); } \
  void _ZNSt##mangled_len_name##D0Ev(void *self) { vp_exc_d0(self); }
EXC_CLASS(12domain_error, g__ZTVSt12domain_error)
EXC_CLASS(16invalid_argument, g__ZTVSt16invalid_argument)
EXC_CLASS(12length_error, g__ZTVSt12length_error)
EXC_CLASS(12out_of_range, g__ZTVSt12out_of_range)
EXC_CLASS(13runtime_error, g__ZTVSt13runtime_error)
EXC_CLASS(11logic_error, g__ZTVSt11logic_error)
EXC_CLASS(11range_error, g__ZTVSt11range_error)
EXC_CLASS(14overflow_error, g__ZTVSt14overflow_error)
void _ZNSt9exceptionD2Ev(void *self) { (void)self; }
void _ZNSt9exceptionD1Ev(void *self) { (void)self; }
void *_ZNKSt9exception4whatEv(void *self) { (void)self; return (void *)"std::exception"; }

void vp_call_dtor(void *dtor, void *obj)
{
  /* destructors registered with __cxa_throw: the std ones of this file */
  if (dtor == (void *)_ZNSt12domain_errorD1Ev || dtor == (void *)_ZNSt16invalid_argumentD1Ev
      || dtor == (void *)_ZNSt12length_errorD1Ev || dtor == (void *)_ZNSt12out_of_rangeD1Ev
      || dtor == (void *)_ZNSt13runtime_errorD1Ev || dtor == (void *)_ZNSt11logic_errorD1Ev
      || dtor == (void *)_ZNSt11range_errorD1Ev || dtor == (void *)_ZNSt14overflow_errorD1Ev)
    vp_exc_d1(obj);
  else
    VP_ASSERT(0, "exception destructor not modelled");
}

static void vp_throw_new(void **vt, void *ti, void *dtor, const char *msg)
{
  vp_std_exc *e = (vp_std_exc *)__cxa_allocate_exception(sizeof (vp_std_exc));
  vp_exc_ctor_cstr(e, (void *)msg, vt);
  __cxa_throw(e, ti, dtor);
}
void _ZSt20__throw_length_errorPKc(void *m) { vp_throw_new(g__ZTVSt12length_error, &g__ZTISt12length_error, (void *)_ZNSt12length_errorD1Ev, (const char *)m); }
void _ZSt19__throw_logic_errorPKc(void *m) { vp_throw_new(g__ZTVSt11logic_error, &g__ZTISt11logic_error, (void *)_ZNSt11logic_errorD1Ev, (const char *)m); }
void _ZSt24__throw_invalid_argumentPKc(void *m) { vp_throw_new(g__ZTVSt16invalid_argument, &g__ZTISt16invalid_argument, (void *)_ZNSt16invalid_argumentD1Ev, (const char *)m); }
void _ZSt20__throw_out_of_rangePKc(void *m) { vp_throw_new(g__ZTVSt12out_of_range, &g__ZTISt12out_of_range, (void *)_ZNSt12out_of_rangeD1Ev, (const char *)m); }
void _ZSt24__throw_out_of_range_fmtPKcz(void *m, ...) { vp_throw_new(g__ZTVSt12out_of_range, &g__ZTISt12out_of_range, (void *)_ZNSt12out_of_rangeD1Ev, (const char *)m); }
void _ZSt21__throw_runtime_errorPKc(void *m) { vp_throw_new(g__ZTVSt13runtime_error, &g__ZTISt13runtime_error, (void *)_ZNSt13runtime_errorD1Ev, (const char *)m); }
void _ZSt17__throw_bad_allocv(void) { VP_ASSERT(0, "bad_alloc thrown (allocation sizes are out of scope)"); VP_ASSUME(0); }
void _ZSt28__throw_bad_array_new_lengthv(void) { VP_ASSERT(0, "bad_array_new_length thrown"); VP_ASSUME(0); }
void _ZSt25__throw_bad_function_callv(void) { VP_ASSERT(0, "bad_function_call thrown"); VP_ASSUME(0); }
void _ZSt16__throw_bad_castv(void) { VP_ASSERT(0, "bad_cast thrown"); VP_ASSUME(0); }

/* ---------------------------------------------------------------- block copies */
void vp_memcpy(void *d, const void *s, uint64_t n)
{
  uint8_t *dd = (uint8_t *)d; const uint8_t *ss = (const uint8_t *)s;
  for (uint64_t i = 0; i < n; ++i)
    dd[i] = ss[i];
}
void vp_memmove(void *d, const void *s, uint64_t n)
{
  uint8_t *dd = (uint8_t *)d; const uint8_t *ss = (const uint8_t *)s;
  if (VP_PTR_LE(dd, ss))
    for (uint64_t i = 0; i < n; ++i)
      dd[i] = ss[i];
  else
    for (uint64_t i = n; i > 0; --i)
      dd[i - 1] = ss[i - 1];
}
void vp_memset(void *d, uint8_t c, uint64_t n)
{
  uint8_t *dd = (uint8_t *)d;
  for (uint64_t i = 0; i < n; ++i)
    dd[i] = c;
}
/* libc entry points that the IR calls directly (with -fno-builtin they stay calls) */
void *vp_libc_memcpy(void *d, void *s, uint64_t n) { vp_memcpy(d, s, n); return d; }
void *vp_libc_memmove(void *d, void *s, uint64_t n) { vp_memmove(d, s, n); return d; }
void *vp_libc_memset(void *d, uint32_t c, uint64_t n) { vp_memset(d, (uint8_t)c, n); return d; }
uint32_t vp_libc_memcmp(void *a, void *b, uint64_t n)
{
  const uint8_t *x = (const uint8_t *)a, *y = (const uint8_t *)b;
  for (uint64_t i = 0; i < n; ++i)
    if (x[i] != y[i])
      return x[i] < y[i] ? (uint32_t)-1 : 1;
  return 0;
}
uint64_t vp_libc_strlen(void *s) { return vp_strlen((const char *)s); }
void *vp_libc_memchr(void *s, uint32_t c, uint64_t n)
{
  uint8_t *x = (uint8_t *)s;
  for (uint64_t i = 0; i < n; ++i)
    if (x[i] == (uint8_t)c)
      return x + i;
  return 0;
}
/* formatted output into a buffer is not modelled: the buffer becomes the empty string */
uint32_t vp_libc_sprintf(void *buf, void *fmt, ...) { (void)fmt; ((char *)buf)[0] = 0; return 0; }
uint32_t vp_libc_snprintf(void *buf, uint64_t n, void *fmt, ...) { (void)fmt; if (n) ((char *)buf)[0] = 0; return 0; }

/* ---------------------------------------------------------------- strtoull (C11 7.22.1.4) */
static uint32_t vp_errno;
void *__errno_location(void) { return &vp_errno; }
static int vp_digit(uint8_t c)
{
  if (c >= '0' && c <= '9') return c - '0';
  if (c >= 'a' && c <= 'z') return c - 'a' + 10;
  if (c >= 'A' && c <= 'Z') return c - 'A' + 10;
  return 99;
}
uint64_t vp_libc_strtoull(void *nptr, void *endptr, uint32_t base)
{
  const uint8_t *s = (const uint8_t *)nptr;
  uint64_t i = 0;
  for (unsigned g = 0; g < 24; ++g)       /* leading white space */
    if (s[i] == ' ' || (s[i] >= 9 && s[i] <= 13)) ++i; else break;
  int neg = 0;
  if (s[i] == '+' || s[i] == '-') { neg = s[i] == '-'; ++i; }
  if ((base == 16 || base == 0) && s[i] == '0' && (s[i + 1] == 'x' || s[i + 1] == 'X') && vp_digit(s[i + 2]) < 16)
    { i += 2; base = 16; }
  else if (base == 0)
    base = s[i] == '0' ? 8 : 10;
  uint64_t acc = 0; int any = 0, ovf = 0;
  for (unsigned g = 0; g < 70; ++g)
    {
      int d = vp_digit(s[i]);
      if (d >= (int)base) break;
      any = 1;
      if (acc > (0xffffffffffffffffULL - (uint64_t)d) / base) ovf = 1;
      acc = acc * base + (uint64_t)d;
      ++i;
    }
  if (endptr) *(const uint8_t **)endptr = any ? s + i : (const uint8_t *)nptr;
  if (ovf) { vp_errno = 34 /* ERANGE */; return 0xffffffffffffffffULL; }
  return neg ? (uint64_t)0 - acc : acc;
}
/* std::uncaught_exception(): an exception is propagating */
_Bool _ZSt18uncaught_exceptionv(void) { return __vp_exc.uncaught > 0; }
uint32_t _ZSt19uncaught_exceptionsv(void) { return (uint32_t)__vp_exc.uncaught; }
uint32_t vp_libc_strcmp(void *a, void *b)
{
  const uint8_t *x = (const uint8_t *)a, *y = (const uint8_t *)b;
  for (unsigned i = 0; i < 256; ++i)
    {
      if (x[i] != y[i]) return x[i] < y[i] ? (uint32_t)-1 : 1;
      if (x[i] == 0) return 0;
    }
  return 0;
}
/* unsigned long is 64 bits wide on this target */
uint64_t vp_libc_strtoul(void *nptr, void *endptr, uint32_t base) { return vp_libc_strtoull(nptr, endptr, base); }
