// C12 (kernel) -- a compiled query is a pure function of its input stack: executions of ONE compiled operator
// graph, each with its own state area (scon over the graph's layout, as zw_result holds one), interleaved with one
// another or abandoned half-way, yield for each execution the same result sequence as a fresh run on that input.
// Encoded: the real operator classes of op.cc wired as build.cc wires them (ALT = op_merge/op_tine, OR = op_or,
// sub-expression = op_subx), scon / scon_guard, layout -- between the protocol stubs of ops.hh.
// Scenario digits: the graph's sub-expression result counts, the input ranges of executions A and B, the
// interleaving pattern.  Payload tokens symbolic.
#include "c01.cc"

struct range { unsigned from, to; };
static inline range
range_of (unsigned code)          // 0: [0,1)  1: [0,2)  2: [1,2)
{
  range r;
  r.from = code == 2 ? 1 : 0;
  r.to = code == 0 ? 1 : 2;
  return r;
}

struct exec
{
  scon m_sc;
  range m_r;
  reslog m_log;
  bool m_done;
  exec (layout const &l, op const &x, U_src const &u, range r) : m_sc {l}, m_r (r), m_done {false}
  {
    x.state_con (m_sc);
    u.seek (m_sc, r.from, r.to);
  }
  void pull (op const &x)
  {
    if (m_done)
      return;
    auto r = x.next (m_sc);
    if (r == nullptr)
      m_done = true;
    else
      m_log.add (*r, 0);
  }
};

static inline void
same_prefix (reslog const &got, reslog const &ref, bool whole)
{
  if (whole)
    vp_assert (got.n == ref.n, "an execution yields as many results as a fresh run on the same input");
  else
    vp_assert (got.n <= ref.n, "an abandoned execution yielded a prefix of the fresh run's results");
  for (unsigned i = 0; i < 16; ++i)
    if (i < got.n && i < ref.n)
      {
        vp_assert (got.depth[i] == ref.depth[i], "same result depth as the fresh run");
        vp_assert (got.top[i] == ref.top[i] && got.below[i] == ref.below[i], "same result values, in the same order, as the fresh run");
        vp_assert (got.pos[i] == ref.pos[i], "same result position as the fresh run");
      }
}

// pattern: 0 ABAB..  1 BABA..  2 A to the end, then B  3 B once, A to the end, B abandoned  4 A once, B to the end, A to the end
static inline void
interleave (std::shared_ptr <op> const &x, U_src const &u, layout &l, range ra, range rb, unsigned pattern)
{
  reslog la, lb;
  bool b_abandoned = pattern == 3;
  {
    exec A {l, *x, u, ra};
    exec B {l, *x, u, rb};
    switch (pattern)
      {
      case 0:
      case 1:
        for (unsigned step = 0; step < 12; ++step)
          if ((step + pattern) % 2 == 0) A.pull (*x); else B.pull (*x);
        break;
      case 2:
        for (unsigned step = 0; step < 6; ++step) A.pull (*x);
        for (unsigned step = 0; step < 6; ++step) B.pull (*x);
        break;
      case 3:
        B.pull (*x);
        for (unsigned step = 0; step < 6; ++step) A.pull (*x);
        break;
      default:
        A.pull (*x);
        for (unsigned step = 0; step < 6; ++step) B.pull (*x);
        for (unsigned step = 0; step < 6; ++step) A.pull (*x);
        break;
      }
    vp_assert (A.m_done, "execution A ends within the pull bound");
    if (!b_abandoned)
      vp_assert (B.m_done, "execution B ends within the pull bound");
    la = A.m_log;
    lb = B.m_log;
    // torn down in the order a caller might: B first (possibly half-way), then A
    x->state_des (B.m_sc);
    x->state_des (A.m_sc);
  }
  // fresh runs, one after the other
  reslog fa, fb;
  {
    exec F {l, *x, u, ra};
    for (unsigned step = 0; step < 6; ++step) F.pull (*x);
    vp_assert (F.m_done, "fresh run A ends within the pull bound");
    fa = F.m_log;
    x->state_des (F.m_sc);
  }
  {
    exec F {l, *x, u, rb};
    for (unsigned step = 0; step < 6; ++step) F.pull (*x);
    vp_assert (F.m_done, "fresh run B ends within the pull bound");
    fb = F.m_log;
    x->state_des (F.m_sc);
  }
  same_prefix (la, fa, true);
  same_prefix (lb, fb, !b_abandoned);
}

static inline void
feed_tokens (U_src &u)
{
  u.m_n = VP_T;
  u.m_two = true;
  for (unsigned i = 0; i < VP_T; ++i)
    {
      u.m_tok[i] = nd_tok ();
      u.m_below[i] = i;
    }
}

#define N_C12_TWO (9 * 5 * ipow (VP_MAXC + 1, 2 * VP_T))
#define N_C12_ONE (9 * 5 * ipow (VP_MAXC + 1, VP_T))

// The quick tier runs a selection of the scenario space (the thorough tier all of it): range pairs
// (both executions on both inputs; disjoint inputs; overlapping inputs), patterns (alternating, B abandoned, A
// suspended), count vectors (everything yields; crosswise; only the first sub-expression yields / nothing).
#ifdef VP_C12_QUICK
static inline uint64_t
c12_select (uint64_t j, bool two)
{
  static const unsigned ra[3] = {1, 0, 1}, rb[3] = {1, 2, 2}, pat[3] = {0, 3, 4};
  static const unsigned cnt2[4] = {15, 9, 6, 3}, cnt1[4] = {3, 1, 2, 0};
  unsigned ri = j % 3, pi = (j / 3) % 3, ci = (j / 9) % 4;
  return ra[ri] + 3 * (rb[ri] + 3 * (pat[pi] + 5 * (two ? cnt2[ci] : cnt1[ci])));
}
#define C12_N(N) 36
#define C12_K(j, two) c12_select (j, two)
#else
#define C12_N(N) (N)
#define C12_K(j, two) (j)
#endif
#define C12_SCENARIOS(name, N, TWO)                                     \
  static void name##__run (uint64_t k);                                 \
  VP_HARNESS (name)                                                     \
  {                                                                     \
    uint64_t lo = vp_range_lo (), hi = vp_range_hi ();                  \
    if (hi > C12_N (N)) hi = C12_N (N);                                 \
    uint64_t scen = vp_nondet_u64 ();                                   \
    vp_assume (scen >= lo && scen < hi);                                \
    for (uint64_t j = lo; j < hi; ++j)                                  \
      if (scen == j)                                                    \
        name##__run (C12_K (j, TWO));                                   \
  }                                                                     \
  static void name##__run (uint64_t k)

C12_SCENARIOS (c12_alt2, N_C12_TWO, true)
{
  cfgdec d {k};
  unsigned ra = d.take (3), rb = d.take (3), pattern = d.take (5);
  layout l;
  auto u = std::make_shared <U_src> (l);
  feed_tokens (*u);
  auto merge = std::make_shared <op_merge> (l, u);
  for (unsigned b = 0; b < 2; ++b)
    {
      auto tine = std::make_shared <op_tine> (*merge, b);
      auto s = std::make_shared <S_map> (l, tine);
      s->configure (d, VP_T, VP_MAXC);
      merge->add_branch (s);
    }
  interleave (merge, *u, l, range_of (ra), range_of (rb), pattern);
}

C12_SCENARIOS (c12_or2, N_C12_TWO, true)
{
  cfgdec d {k};
  unsigned ra = d.take (3), rb = d.take (3), pattern = d.take (5);
  layout l;
  auto u = std::make_shared <U_src> (l);
  feed_tokens (*u);
  auto o = std::make_shared <op_or> (l, u);
  for (unsigned b = 0; b < 2; ++b)
    {
      auto origin = std::make_shared <op_origin> (l);
      auto s = std::make_shared <S_map> (l, origin);
      s->configure (d, VP_T, VP_MAXC);
      o->add_branch (origin, s);
    }
  interleave (o, *u, l, range_of (ra), range_of (rb), pattern);
}

C12_SCENARIOS (c12_subx, N_C12_ONE, false)
{
  cfgdec d {k};
  unsigned ra = d.take (3), rb = d.take (3), pattern = d.take (5);
  layout l;
  auto u = std::make_shared <U_src> (l);
  feed_tokens (*u);
  auto origin = std::make_shared <op_origin> (l);
  auto s = std::make_shared <S_map> (l, origin);
  s->configure (d, VP_T, VP_MAXC);
  std::shared_ptr <op> x = std::make_shared <op_subx> (l, u, origin, s, 1);
  interleave (x, *u, l, range_of (ra), range_of (rb), pattern);
}

// ---- values are deep-copied when stacks are copied (stack.cc: stack (stack const &); value-seq.cc: the copy
// constructor / clone): what one execution does to its copy of a sequence -- `add' appends in place to its left
// operand's storage -- is invisible in the stack it was copied from (the caller's input stack, the literal held by
// the compiled query, another execution's state).
static inline std::unique_ptr <value_seq>
mk_seq (unsigned n, uint64_t const *tok, bool nested_first, unsigned inner_n, uint64_t inner_tok)
{
  value_seq::seq_t v;
  for (unsigned i = 0; i < 3; ++i)
    if (i < n)
      {
        if (i == 0 && nested_first)
          {
            value_seq::seq_t in;
            if (inner_n > 0)
              in.push_back (std::make_unique <value_tok> (inner_tok, 0));
            v.push_back (std::make_unique <value_seq> (std::move (in), 0));
          }
        else
          v.push_back (std::make_unique <value_tok> (tok[i], i));
      }
  return std::make_unique <value_seq> (std::move (v), 0);
}

static inline void
expect_seq (value const &val, unsigned n, uint64_t const *tok, bool nested_first, unsigned inner_n, uint64_t inner_tok)
{
  auto seq = value::as <value_seq> (&val);
  vp_assert (seq != nullptr, "still a sequence");
  if (seq == nullptr)
    return;
  auto const &v = *seq->get_seq ();
  vp_assert (v.size () == n, "the original sequence keeps its length");
  for (unsigned i = 0; i < 3; ++i)
    if (i < n && i < v.size ())
      {
        if (i == 0 && nested_first)
          {
            auto in = value::as <value_seq> (v[i].get ());
            vp_assert (in != nullptr && in->get_seq ()->size () == inner_n, "the original nested sequence keeps its length");
            if (in != nullptr && inner_n > 0 && in->get_seq ()->size () == inner_n)
              vp_assert (static_cast <value_tok const &> (*(*in->get_seq ())[0]).m_tok == inner_tok, "the original nested element is unchanged");
          }
        else
          vp_assert (static_cast <value_tok const &> (*v[i]).m_tok == tok[i], "the original elements are unchanged");
      }
}

static inline void
run_seq_copy (unsigned n, bool nested, unsigned inner_n, unsigned how)
{
  uint64_t tok[3], inner_tok = nd_tok (), extra = nd_tok ();
  for (unsigned i = 0; i < 3; ++i)
    tok[i] = nd_tok ();
  stack orig;
  orig.push (std::make_unique <value_tok> (nd_tok (), 0));
  orig.push (mk_seq (n, tok, nested, inner_n, inner_tok));
  {
    // how 0: copy of the whole stack (zw_query_execute, op_tine, op_subx ...); 1: value::clone (zw_stack_push, op_const)
    std::unique_ptr <value> mine;
    std::unique_ptr <stack> copy;
    value_seq *vs;
    if (how == 0)
      {
        copy = std::make_unique <stack> (orig);
        vs = value::as <value_seq> (&copy->get (0));
      }
    else
      {
        mine = orig.get (0).clone ();
        vs = value::as <value_seq> (mine.get ());
      }
    vp_assert (vs != nullptr, "the copy is a sequence");
    if (vs != nullptr)
      {
        vp_assert (vs->get_seq ()->size () == n, "the copy has the same length");
        // what op_add_seq::operate does to its left operand
        vs->get_seq ()->push_back (std::make_unique <value_tok> (extra, 0));
        if (nested && n > 0)
          if (auto in = value::as <value_seq> ((*vs->get_seq ())[0].get ()))
            in->get_seq ()->push_back (std::make_unique <value_tok> (extra, 0));
      }
    expect_seq (orig.get (0), n, tok, nested, inner_n, inner_tok);
  }
  // the copy is gone; the original is still whole
  expect_seq (orig.get (0), n, tok, nested, inner_n, inner_tok);
  vp_assert (orig.size () == 2, "the original stack keeps its depth");
}

VP_HARNESS (c12_seq_copy)
{
  // scenario = (length 0..2) x (first element nested?) x (inner length 0..1) x (stack copy / clone)
  uint64_t lo = vp_range_lo (), hi = vp_range_hi ();
  if (hi > 24) hi = 24;
  uint64_t scen = vp_nondet_u64 ();
  vp_assume (scen >= lo && scen < hi);
  for (uint64_t s = lo; s < hi; ++s)
    if (scen == s)
      run_seq_copy ((unsigned) (s % 3), (s / 3) % 2 == 1, (unsigned) ((s / 6) % 2), (unsigned) (s / 12));
}
