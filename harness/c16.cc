// C16 -- address sets behave as mathematical sets (coverage.cc kernel).
// One inductive step from an arbitrary valid pre-state: K ranges with symbolic
// start/length constrained only by the representation invariant INV, one operation
// with symbolic arguments, a symbolic probe address x.
// Universe: a window of 2^W consecutive addresses at a concrete BASE (DESIGN 6/C16 (a)),
// or the full 64-bit space when VP_FULL is set.
#include "vp.h"
#include <cassert>
#include <vector>
#include "coverage.hh"

#ifndef VP_W
#define VP_W 6
#endif

// coverage derives privately from std::vector<cov_range> (its only base, at offset 0)
static inline std::vector<cov_range> &vec (coverage &c) { return reinterpret_cast<std::vector<cov_range> &> (c); }
static inline std::vector<cov_range> const &vec (coverage const &c) { return reinterpret_cast<std::vector<cov_range> const &> (c); }

struct model { uint64_t s[6]; uint64_t l[6]; unsigned n; };

template <int MODE> static inline uint64_t
nd_addr (uint64_t base)
{
  if (MODE == 1)
    return vp_nondet_u64 ();
  uint64_t off = vp_nondet_u64 ();
  vp_assume (off < ((uint64_t) 1 << VP_W));
  return base + off;
}

// arbitrary pre-state with exactly K ranges satisfying INV (K is a compile-time
// constant per harness; K = 0..Kmax are separate harnesses).  The real object is
// filled through the real std::vector::push_back after reserving K+2 slots, so the
// operation under test never takes libstdc++'s reallocation path (outside the claim).
template <int MODE> static inline void
nd_state (coverage &c, model &m, unsigned K, uint64_t base)
{
  m.n = K;
  vec (c).reserve (K + 2);
  uint64_t prev_end = 0;
  for (unsigned i = 0; i < K; ++i)
    {
      uint64_t s = nd_addr<MODE> (base);
      uint64_t e = nd_addr<MODE> (base);        // exclusive end, representable
      vp_assume (s < e);
      if (i > 0)
        vp_assume (s > prev_end);              // ascending, disjoint, non-adjacent
      m.s[i] = s;
      m.l[i] = e - s;
      prev_end = e;
      vec (c).push_back (cov_range {s, e - s});
    }
}

static inline bool
member (model const &m, uint64_t x)
{
  bool r = false;
  for (unsigned i = 0; i < m.n; ++i)
    if (x >= m.s[i] && x - m.s[i] < m.l[i])
      r = true;
  return r;
}

static inline bool
member (coverage const &cc, uint64_t x)
{
  std::vector<cov_range> const &c = vec (cc);
  bool r = false;
  for (size_t i = 0; i < c.size (); ++i)
    if (x >= c[i].start && x - c[i].start < c[i].length)
      r = true;
  return r;
}

// INV on the real object
static inline bool
inv (coverage const &cc)
{
  std::vector<cov_range> const &c = vec (cc);
  bool ok = true;
  for (size_t i = 0; i < c.size (); ++i)
    {
      cov_range const &r = c[i];
      if (r.length == 0)
        ok = false;
      if (r.start + r.length < r.start)
        ok = false;
      if (i > 0)
        {
          cov_range const &p = c[i - 1];
          if (!(r.start > p.start + p.length))
            ok = false;
        }
    }
  return ok;
}

template <int MODE, int K> static inline void
h_add (uint64_t base)
{
  coverage c; model m;
  nd_state<MODE> (c, m, K, base);
  uint64_t s = nd_addr<MODE> (base), e = nd_addr<MODE> (base), x = nd_addr<MODE> (base);
  vp_assume (s <= e);                           // e = s + length, representable
  c.add (s, e - s);
  vp_assert (inv (c), "add: result is ascending, disjoint, non-adjacent, non-empty runs");
  vp_assert (member (c, x) == (member (m, x) || (x >= s && x < e)), "add: is set union");
  vp_assert (c.size () <= m.n + 1, "add: at most one more run");
}

template <int MODE, int K> static inline void
h_remove (uint64_t base)
{
  coverage c; model m;
  nd_state<MODE> (c, m, K, base);
  uint64_t s = nd_addr<MODE> (base), e = nd_addr<MODE> (base), x = nd_addr<MODE> (base);
  vp_assume (s <= e);
  bool ret = c.remove (s, e - s);
  vp_assert (inv (c), "remove: result is ascending, disjoint, non-adjacent, non-empty runs");
  vp_assert (member (c, x) == (member (m, x) && !(x >= s && x < e)), "remove: is set difference");
  bool meets = false;
  for (unsigned i = 0; i < m.n; ++i)
    if (s < e && m.s[i] < e && s < m.s[i] + m.l[i])
      meets = true;
  vp_assert (ret == meets, "remove: returns whether anything was removed");
}

template <int MODE, int K> static inline void
h_query (uint64_t base)
{
  coverage c; model m;
  nd_state<MODE> (c, m, K, base);
  uint64_t s = nd_addr<MODE> (base), e = nd_addr<MODE> (base);
  vp_assume (s < e);                            // length >= 1
  bool cov = false, meets = false;
  for (unsigned i = 0; i < m.n; ++i)
    {
      if (m.s[i] <= s && e <= m.s[i] + m.l[i])
        cov = true;
      if (m.s[i] < e && s < m.s[i] + m.l[i])
        meets = true;
    }
  vp_assert (c.is_covered (s, e - s) == cov, "is_covered: some run contains the whole range");
  vp_assert (c.is_overlap (s, e - s) == meets, "is_overlap: some run meets the range");
}

template <int MODE, int K> static inline void
h_intersect (uint64_t base)
{
  coverage c; model m;
  nd_state<MODE> (c, m, K, base);
  uint64_t s = nd_addr<MODE> (base), e = nd_addr<MODE> (base), x = nd_addr<MODE> (base);
  vp_assume (s <= e);
  coverage r = c.intersect (s, e - s);
  vp_assert (inv (r), "intersect: result is canonical");
  vp_assert (member (r, x) == (member (m, x) && x >= s && x < e), "intersect: is set intersection with the range");
  vp_assert (inv (c) && c.size () == m.n, "intersect: receiver unchanged");
}

// set-level folds: add_all / remove_all / operator== on two arbitrary valid states
template <int MODE, int K> static inline void
h_setops (uint64_t base)
{
  coverage a, b; model ma, mb;
  nd_state<MODE> (a, ma, K, base);
  nd_state<MODE> (b, mb, K, base);
  uint64_t x = nd_addr<MODE> (base);
  coverage u = a + b;
  coverage d = a - b;
  vp_assert (inv (u) && inv (d), "union/difference results are canonical");
  vp_assert (member (u, x) == (member (ma, x) || member (mb, x)), "operator+ is union");
  vp_assert (member (d, x) == (member (ma, x) && !member (mb, x)), "operator- is difference");
  bool same = ma.n == mb.n;
  for (unsigned i = 0; i < ma.n && i < mb.n; ++i)
    if (ma.s[i] != mb.s[i] || ma.l[i] != mb.l[i])
      same = false;
  vp_assert ((a == b) == same, "operator== is structural equality of the canonical form");
  // canonical form is unique: if the lists differ, an endpoint tells the sets apart
  if (!same)
    {
      bool differ = false;
      for (unsigned i = 0; i < ma.n; ++i)
        {
          if (member (mb, ma.s[i]) != true) differ = true;
          if (member (mb, ma.s[i] + ma.l[i] - 1) != true) differ = true;
          if (member (mb, ma.s[i] + ma.l[i]) != false && ma.s[i] + ma.l[i] != 0) differ = true;
          if (ma.s[i] > 0 && member (mb, ma.s[i] - 1) != false) differ = true;
        }
      for (unsigned i = 0; i < mb.n; ++i)
        {
          if (member (ma, mb.s[i]) != true) differ = true;
          if (member (ma, mb.s[i] + mb.l[i] - 1) != true) differ = true;
          if (member (ma, mb.s[i] + mb.l[i]) != false && mb.s[i] + mb.l[i] != 0) differ = true;
          if (mb.s[i] > 0 && member (ma, mb.s[i] - 1) != false) differ = true;
        }
      vp_assert (differ, "different canonical lists denote different sets");
    }
}

#define BASE0 ((uint64_t) 0)
#define BASE32 (((uint64_t) 1 << 32) - ((uint64_t) 1 << (VP_W - 1)))
#define BASE63 (((uint64_t) 1 << 63) - ((uint64_t) 1 << (VP_W - 1)))
#define BASETOP ((uint64_t) -1 - ((uint64_t) 1 << VP_W))

#define INST(OP, K)                                                              \
  VP_HARNESS (c16_##OP##_k##K##_b0) { h_##OP<0, K> (BASE0); }                    \
  VP_HARNESS (c16_##OP##_k##K##_b32) { h_##OP<0, K> (BASE32); }                  \
  VP_HARNESS (c16_##OP##_k##K##_b63) { h_##OP<0, K> (BASE63); }                  \
  VP_HARNESS (c16_##OP##_k##K##_btop) { h_##OP<0, K> (BASETOP); }                \
  VP_HARNESS (c16_##OP##_k##K##_full) { h_##OP<1, K> (0); }

INST (add, 1) INST (add, 2) INST (add, 3) INST (add, 4)
INST (remove, 1) INST (remove, 2) INST (remove, 3) INST (remove, 4)
INST (query, 1) INST (query, 2) INST (query, 3) INST (query, 4)
INST (intersect, 1) INST (intersect, 2) INST (intersect, 3)
INST (setops, 1) INST (setops, 2) INST (setops, 3)
