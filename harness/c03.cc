// C03 (kernel, run time) -- each read of a name sees the value bound for the very input stack being processed.
// Encoded: op_bind::next/current, op_read::next (op.cc), op_apply in its pass-through role (builtin-closure.cc;
// build.cc wraps every READ in it), op_merge/op_tine, op_subx, scon, layout -- wired as build.cc wires BIND and READ,
// between the protocol stubs of ops.hh.  Every input stack is [id, tok]; `let A := .' (op_bind) pops tok.
#include "c01.cc"
#include "builtin-closure.hh"

static inline std::shared_ptr <op>
mk_read (layout &l, std::shared_ptr <op> upstream, op_bind &b)
{
  auto rd = std::make_shared <op_read> (upstream, b);
  return std::make_shared <op_apply> (l, rd, true);
}

// results are [id, out, bound]: `bound' has to be the token of input `id', `out' one of S's results for it
static inline void
check_reads (inputs const &in, S_map const *s0, S_map const *s1, reslog const &log)
{
  unsigned total = 0;
  for (unsigned i = 0; i < in.n; ++i)
    total += s0->m_cnt[i] + (s1 != nullptr ? s1->m_cnt[i] : 0);
  vp_assert (log.n == total, "one result per result of the body, for every input");
  unsigned per[VP_T];
  for (unsigned i = 0; i < VP_T; ++i)
    per[i] = 0;
  for (unsigned r = 0; r < log.n; ++r)
    {
      vp_assert (log.depth[r] == 3, "result = [id, out, value read]");
      uint64_t i = log.third[r];
      vp_assert (i < in.n, "result derives from one of the inputs");
      if (i < in.n)
        {
          vp_assert (log.top[r] == in.tok[i], "the read yields the value bound for the input this result derives from");
          vp_assert (log.epoch[r] == epoch_of (in, i), "result is yielded in the epoch its input was fed");
          bool known = false;
          for (unsigned k = 0; k < VP_M; ++k)
            {
              if (k < s0->m_cnt[i] && s0->m_out[i][k] == log.below[r])
                known = true;
              if (s1 != nullptr && k < s1->m_cnt[i] && s1->m_out[i][k] == log.below[r])
                known = true;
            }
          vp_assert (known, "the body's result is carried through unchanged");
          ++per[i];
        }
    }
  for (unsigned i = 0; i < VP_T; ++i)
    if (i < in.n)
      vp_assert (per[i] == s0->m_cnt[i] + (s1 != nullptr ? s1->m_cnt[i] : 0), "as many results per input as the body yields for it");
}

// ---- let A := . ; S A
VP_SCENARIOS (c03_bind_read, N_ONE)
{
  cfgdec d {k};
  layout l;
  auto u = std::make_shared <U_src> (l);
  inputs in;
  mk_inputs (d, in, *u);
  auto b = std::make_shared <op_bind> (l, u);
  auto s = std::make_shared <S_map> (l, b);
  s->m_keep = true;
  s->configure (d, VP_T, VP_MAXC);
  for (unsigned i = in.n; i < VP_T; ++i)
    if (s->m_cnt[i] != 0)
      in.valid = false;
  if (!in.valid)
    return;
  auto x = mk_read (l, s, *b);
  reslog log;
  drive (x, *u, l, in, log, VP_T * VP_M + 1);
  check_reads (in, s.get (), nullptr, log);
}

// ---- let A := . ; (S0, S1) A
VP_SCENARIOS (c03_bind_alt_read, N_ALT2)
{
  cfgdec d {k};
  layout l;
  auto u = std::make_shared <U_src> (l);
  inputs in;
  mk_inputs (d, in, *u);
  auto b = std::make_shared <op_bind> (l, u);
  auto merge = std::make_shared <op_merge> (l, b);
  std::shared_ptr <S_map> s[2];
  for (unsigned br = 0; br < 2; ++br)
    {
      auto tine = std::make_shared <op_tine> (*merge, br);
      s[br] = std::make_shared <S_map> (l, tine);
      s[br]->m_keep = true;
      s[br]->configure (d, VP_T, VP_MAXC);
      merge->add_branch (s[br]);
    }
  for (unsigned br = 0; br < 2; ++br)
    for (unsigned i = in.n; i < VP_T; ++i)
      if (s[br]->m_cnt[i] != 0)
        in.valid = false;
  if (!in.valid)
    return;
  auto x = mk_read (l, merge, *b);
  reslog log;
  drive (x, *u, l, in, log, VP_T * 2 * VP_M + 1);
  check_reads (in, s[0].get (), s[1].get (), log);
}

// ---- let A := . ; S0 ; let B := . ; S1 A B     (two binders live at once)
VP_SCENARIOS (c03_two_binds, N_ALT2)
{
  cfgdec d {k};
  layout l;
  auto u = std::make_shared <U_src> (l);
  inputs in;
  mk_inputs (d, in, *u);
  auto b1 = std::make_shared <op_bind> (l, u);
  auto s0 = std::make_shared <S_map> (l, b1);
  s0->m_keep = true;
  s0->configure (d, VP_T, VP_MAXC);
  auto b2 = std::make_shared <op_bind> (l, s0);
  auto s1 = std::make_shared <S_map> (l, b2);
  s1->m_keep = true;
  s1->configure (d, VP_T, VP_MAXC);
  for (unsigned i = in.n; i < VP_T; ++i)
    if (s0->m_cnt[i] != 0 || s1->m_cnt[i] != 0)
      in.valid = false;
  if (!in.valid)
    return;
  auto ra = mk_read (l, s1, *b1);
  auto x = mk_read (l, ra, *b2);
  reslog log;
  drive (x, *u, l, in, log, VP_T * VP_M * VP_M + 1);
  // results are [id, out1, A, B] with A = tok_id and B = the result of S0 that was bound
  unsigned total = 0;
  for (unsigned i = 0; i < in.n; ++i)
    total += s0->m_cnt[i] * s1->m_cnt[i];
  vp_assert (log.n == total, "one result per pair of body results, for every input");
  for (unsigned r = 0; r < log.n; ++r)
    {
      vp_assert (log.depth[r] == 4, "result = [id, out1, A, B]");
      uint64_t i = log.fourth[r];
      vp_assert (i < in.n, "result derives from one of the inputs");
      if (i < in.n)
        {
          vp_assert (log.below[r] == in.tok[i], "A reads the value bound by the first binder for this input");
          bool known0 = false, known1 = false;
          for (unsigned kk = 0; kk < VP_M; ++kk)
            {
              if (kk < s0->m_cnt[i] && s0->m_out[i][kk] == log.top[r])
                known0 = true;
              if (kk < s1->m_cnt[i] && s1->m_out[i][kk] == log.third[r])
                known1 = true;
            }
          vp_assert (known0, "B reads the value bound by the second binder for this input");
          vp_assert (known1, "the body's result is carried through unchanged");
        }
    }
}

// ---- let A := . ; ?(S A) with both values kept: the read happens inside a sub-expression context
VP_SCENARIOS (c03_bind_subx, N_ONE)
{
  cfgdec d {k};
  layout l;
  auto u = std::make_shared <U_src> (l);
  inputs in;
  mk_inputs (d, in, *u);
  auto b = std::make_shared <op_bind> (l, u);
  auto origin = std::make_shared <op_origin> (l);
  auto s = std::make_shared <S_map> (l, origin);
  s->m_keep = true;
  s->configure (d, VP_T, VP_MAXC);
  for (unsigned i = in.n; i < VP_T; ++i)
    if (s->m_cnt[i] != 0)
      in.valid = false;
  if (!in.valid)
    return;
  auto inner = mk_read (l, s, *b);
  std::shared_ptr <op> x = std::make_shared <op_subx> (l, b, origin, inner, 2);
  reslog log;
  drive (x, *u, l, in, log, VP_T * VP_M + 1);
  check_reads (in, s.get (), nullptr, log);
}
