// C07 (kernel) -- integral data decode with the signedness implied by the encoding of the DIE's type: a
// fixed-width datum (DW_FORM_data1/2/4/8, or a block of 1/2/4/8 bytes) under DW_ATE_signed / signed_char is the
// sign-extended value of its width, under unsigned / unsigned_char / address / UTF the zero-extended one, under
// boolean a constant of the bool domain; encodings dwgrep does not interpret are reported (no value, or an error)
// rather than decoded as something else.
// Encoded: handle_encoding, handle_encoding_data, handle_encoding_block, is_block, atval_signed, atval_unsigned,
// atval_unsigned_with_domain, extract_unsigned_with_domain, fix_dwarf_formsdata, pass_single_value (atval.cc,
// compiled INTO this translation unit because they live in its anonymous namespace), value_cst, constant.
// Environment (libdw) = stubs per the documented contract, reading the datum from attr.valp in the host's byte
// order: dwarf_whatform, dwarf_formblock, dwarf_formudata (zero-extends), dwarf_formsdata -- which zero-extends
// fixed-width forms in elfutils <= 0.170 and sign-extends them in later versions: BOTH behaviours are admitted
// (a symbolic flag), which is exactly why fix_dwarf_formsdata exists.
#include "vp.h"
#include "atval.cc"

static bool g_new_elfutils;

static inline unsigned
width_of_form (unsigned form)
{
  switch (form)
    {
    case DW_FORM_data1: return 1;
    case DW_FORM_data2: return 2;
    case DW_FORM_data4: return 4;
    case DW_FORM_data8: return 8;
    default: return 0;
    }
}

static inline uint64_t
read_le (unsigned char const *p, unsigned w)
{
  uint64_t r = 0;
  for (unsigned i = 0; i < 8; ++i)
    if (i < w)
      r |= (uint64_t) p[i] << (8 * i);
  return r;
}

static inline int64_t
sext (uint64_t r, unsigned w)
{
  switch (w)
    {
    case 1: return (int8_t) (uint8_t) r;
    case 2: return (int16_t) (uint16_t) r;
    case 4: return (int32_t) (uint32_t) r;
    default: return (int64_t) r;
    }
}

static unsigned g_blen;
static unsigned char *g_bdata;

extern "C" {
int dwarf_formudata (Dwarf_Attribute *attr, Dwarf_Word *ret)
{
  unsigned w = width_of_form (attr->form);
  if (w == 0)
    return -1;
  *ret = read_le (attr->valp, w);
  return 0;
}
int dwarf_formsdata (Dwarf_Attribute *attr, Dwarf_Sword *ret)
{
  unsigned w = width_of_form (attr->form);
  if (w == 0)
    return -1;
  uint64_t r = read_le (attr->valp, w);
  *ret = g_new_elfutils ? sext (r, w) : (Dwarf_Sword) r;
  return 0;
}
int dwarf_formblock (Dwarf_Attribute *attr, Dwarf_Block *ret)
{
  if (attr->form != DW_FORM_block1)
    return -1;
  ret->length = g_blen;
  ret->data = g_bdata;
  return 0;
}
int dwarf_errno (void) { return 1; }
const char *dwarf_errmsg (int e) { return "libdw error"; }
}

typedef __int128 i128;
static inline i128 den (constant const &c)
{
  mpz_class v = c.value ();
  return v.m_sign == signedness::sign ? (i128) v.m_i : (i128) v.m_u;
}

enum expect { E_SIGNED, E_UNSIGNED, E_BOOL, E_NONE, E_ERROR };

static inline expect
expect_of (unsigned enc)
{
  switch (enc)
    {
    case DW_ATE_signed: case DW_ATE_signed_char:
      return E_SIGNED;
    case DW_ATE_unsigned: case DW_ATE_unsigned_char: case DW_ATE_address: case DW_ATE_UTF:
      return E_UNSIGNED;
    case DW_ATE_boolean:
      return E_BOOL;
    case DW_ATE_float: case DW_ATE_imaginary_float: case DW_ATE_complex_float: case DW_ATE_signed_fixed:
    case DW_ATE_unsigned_fixed: case DW_ATE_packed_decimal: case DW_ATE_decimal_float:
      return E_NONE;          // not interpreted: the caller reports the raw block / a diagnostic
    default:
      return E_ERROR;         // not interpreted: reported as an error
    }
}

// kind 0..3: DW_FORM_data1/2/4/8; 4..7: DW_FORM_block1 of 1/2/4/8 bytes; 8: a block of 3 bytes
static inline void
run_encoding (unsigned kind, unsigned enc)
{
  static const unsigned forms[4] = { DW_FORM_data1, DW_FORM_data2, DW_FORM_data4, DW_FORM_data8 };
  unsigned char *bytes = (unsigned char *) malloc (8);
  vp_assume (bytes != nullptr);
  for (unsigned i = 0; i < 8; ++i)
    bytes[i] = vp_nondet_u8 ();
  g_new_elfutils = vp_nondet_bool ();
  unsigned w = kind == 8 ? 3 : 1u << (kind % 4);
  Dwarf_Attribute attr;
  attr.code = DW_AT_const_value;
  attr.cu = nullptr;
  attr.valp = bytes;
  if (kind < 4)
    attr.form = forms[kind];
  else
    {
      attr.form = DW_FORM_block1;
      g_blen = w;
      g_bdata = bytes;
    }
  uint64_t raw = read_le (bytes, w);
  expect ex = kind == 8 ? E_NONE : expect_of (enc);

  bool threw = false;
  std::unique_ptr <value_producer <value>> p;
  try { p = handle_encoding (attr, enc); } catch (std::runtime_error &) { threw = true; }
  vp_assert (threw == (ex == E_ERROR), "an encoding dwgrep does not know is reported as an error, every other one is not");
  if (threw)
    return;
  vp_assert ((p == nullptr) == (ex == E_NONE), "no value exactly for the encodings / block sizes left to the caller");
  if (p == nullptr)
    return;
  auto v = p->next ();
  vp_assert (v != nullptr, "one value");
  if (v == nullptr)
    return;
  auto cst = value::as <value_cst> (v.get ());
  vp_assert (cst != nullptr, "a constant");
  if (cst == nullptr)
    return;
  constant c = cst->get_constant ();
  switch (ex)
    {
    case E_SIGNED:
      vp_assert (den (c) == (i128) sext (raw, w), "signed encoding: the sign-extended value of the datum's width, whichever elfutils");
      vp_assert (c.dom () == &dec_constant_dom, "decimal domain");
      break;
    case E_UNSIGNED:
      vp_assert (den (c) == (i128) raw, "unsigned encoding: the zero-extended value of the datum's width");
      vp_assert (c.dom () == &dec_constant_dom, "decimal domain");
      break;
    case E_BOOL:
      vp_assert (den (c) == (i128) raw, "boolean encoding: the stored value");
      vp_assert (c.dom () == &bool_constant_dom, "bool domain");
      break;
    default:
      break;
    }
  auto more = p->next ();
  vp_assert (more == nullptr, "exactly one value");
  free (bytes);
}

static inline unsigned
enc_of (unsigned i)
{
  // every encoding dwarf.h defines (0x0..0x12), the user range's ends and an undefined code
  static const unsigned extra[4] = { DW_ATE_lo_user, DW_ATE_hi_user, 0x13, 0x7f };
  return i <= 0x12 ? i : extra[i - 0x13];
}

VP_HARNESS (c07_encoding)
{
  // scenario = (form / block size 0..8) x (encoding: 23 representatives)
  uint64_t lo = vp_range_lo (), hi = vp_range_hi ();
  if (hi > 9 * 23) hi = 9 * 23;
  uint64_t scen = vp_nondet_u64 ();
  vp_assume (scen >= lo && scen < hi);
  for (uint64_t s = lo; s < hi; ++s)
    if (scen == s)
      run_encoding ((unsigned) (s % 9), enc_of ((unsigned) (s / 9)));
}
