// C15 (kernel, numeric escapes) -- escape sequences denote the bytes the documentation says: the lexer's
// parse_esc_num (lexer.ll) turns every \NNN (first digit 0..3, one to three octal digits) and every \xHH that its
// <STRING> rules admit into the byte with that value, and never rejects or trips an assertion on an admitted one.
// The generated scanner is compiled INTO this translation unit (parse_esc_num is static there).
#include "lexer.cc"          // flex output of /repo/libzwerg/lexer.ll, regenerated at check time
#include "vp.h"

static inline unsigned hexv (uint8_t c) { return c <= '9' ? c - '0' : (c | 0x20) - 'a' + 10; }

VP_HARNESS (c15_esc_octal)
{
  // scenario = number of digits 1..3
  for (unsigned nd = 1; nd <= 3; ++nd)
    {
      char text[5];
      text[0] = '\\';
      unsigned val = 0;
      for (unsigned i = 0; i < 3; ++i)
        if (i < nd)
          {
            uint8_t c = vp_nondet_u8 ();
            vp_assume (c >= '0' && c <= (i == 0 ? '3' : '7'));
            text[1 + i] = (char) c;
            val = val * 8 + (c - '0');
          }
      text[1 + nd] = 'Z';      // what follows the token is not part of it
      bool threw = false;
      char r = 0;
      try { r = parse_esc_num (text, 1 + nd, 1, 8); } catch (std::exception &) { threw = true; }
      vp_assert (!threw, "an octal escape the lexer admits is never rejected");
      if (!threw)
        vp_assert ((uint8_t) r == val, "\\NNN denotes the byte with that octal value");
    }
}

VP_HARNESS (c15_esc_hex)
{
  char text[5];
  text[0] = '\\';
  text[1] = 'x';
  unsigned val = 0;
  for (unsigned i = 0; i < 2; ++i)
    {
      uint8_t c = vp_nondet_u8 ();
      vp_assume ((c >= '0' && c <= '9') || (c >= 'a' && c <= 'f') || (c >= 'A' && c <= 'F'));
      text[2 + i] = (char) c;
      val = val * 16 + hexv (c);
    }
  text[4] = 'Z';
  bool threw = false;
  char r = 0;
  try { r = parse_esc_num (text, 4, 2, 16); } catch (std::exception &) { threw = true; }
  vp_assert (!threw, "a hexadecimal escape the lexer admits is never rejected");
  if (!threw)
    vp_assert ((uint8_t) r == val, "\\xHH denotes the byte with that hexadecimal value");
}
