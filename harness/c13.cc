// C13 (kernel) -- no two live states overlap in the shared state area: layout::reserve hands
// out aligned, pairwise disjoint locations inside size(), and add_union takes the maximum.
// Encoded: layout::reserve, layout::add_union, layout::size, align (layout.cc).
// Symbolic: a series of 4 reservations (size 1..64, alignment 1,2,4,8,16) starting from a
// symbolic current size <= 256; three sub-layouts for add_union.
#include "vp.h"
#include <vector>
#include "layout.hh"

static inline size_t nd_align ()
{
  unsigned k = vp_nondet_u8 ();
  vp_assume (k <= 4);
  return (size_t) 1 << k;
}

VP_HARNESS (c13_layout_reserve)
{
  size_t start = vp_nondet_u16 ();
  vp_assume (start <= 256);
  layout l {start};
  size_t loc[4], sz[4], al[4];
  for (unsigned i = 0; i < 4; ++i)
    {
      sz[i] = vp_nondet_u8 ();
      vp_assume (sz[i] >= 1 && sz[i] <= 64);
      al[i] = nd_align ();
      loc[i] = l.reserve (sz[i], al[i]).m_loc;
    }
  for (unsigned i = 0; i < 4; ++i)
    {
      vp_assert (loc[i] % al[i] == 0, "reserved location is aligned");
      vp_assert (loc[i] >= start, "reserved location does not overlap what was reserved before");
      vp_assert (loc[i] + sz[i] <= l.size (), "reserved location lies inside the state area");
      for (unsigned j = 0; j < i; ++j)
        vp_assert (loc[j] + sz[j] <= loc[i], "locations are pairwise disjoint (ascending)");
    }
}

VP_HARNESS (c13_layout_union)
{
  size_t base = vp_nondet_u16 ();
  vp_assume (base <= 256);
  layout l {base};
  layout a = l, b = l, c = l;
  size_t sa = vp_nondet_u8 (), sb = vp_nondet_u8 (), sc = vp_nondet_u8 ();
  size_t la = a.reserve (sa + 1, nd_align ()).m_loc;
  size_t lb = b.reserve (sb + 1, nd_align ()).m_loc;
  size_t lc = c.reserve (sc + 1, nd_align ()).m_loc;
  l.add_union ({a, b, c});
  vp_assert (l.size () >= a.size () && l.size () >= b.size () && l.size () >= c.size (), "union area holds each alternative");
  vp_assert (l.size () == a.size () || l.size () == b.size () || l.size () == c.size (), "union area is the maximum, not more");
  vp_assert (la >= base && lb >= base && lc >= base, "alternatives start after the common prefix");
}
