// C08 / C14 (kernel) -- integer literals: parse_int (parser.yy) either yields the exact value of
// the documented literal syntax  "-"?("0x"|"0o"|"0b"|"0"|""){digits}  in the right radix domain,
// or leaves a std::exception-derived error; nothing else escapes, nothing is read outside the token.
// The generated parser is compiled INTO this translation unit so that the function in parser.yy's
// anonymous namespace can be called directly.
#include "parser.cc"          // bison output of /repo/libzwerg/parser.yy, regenerated at check time
#include "vp.h"

#ifndef VP_LEN
#define VP_LEN 5
#endif

typedef __int128 i128;
typedef unsigned __int128 u128;

static inline int digit_of (unsigned char c)
{
  if (c >= '0' && c <= '9') return c - '0';
  if (c >= 'a' && c <= 'f') return c - 'a' + 10;
  if (c >= 'A' && c <= 'F') return c - 'A' + 10;
  return 99;
}

// reference reading of a token per doc/syntax.rst; returns false if the literal is invalid or out of range
static inline bool
ref_parse (unsigned char const *t, unsigned len, i128 &val, int &radix)
{
  unsigned i = 0;
  bool neg = false;
  if (i < len && t[i] == '-') { neg = true; ++i; }
  radix = 10;
  if (len - i > 2 && t[i] == '0' && (t[i + 1] == 'x' || t[i + 1] == 'X')) { radix = 16; i += 2; }
  else if (len - i > 2 && t[i] == '0' && (t[i + 1] == 'b' || t[i + 1] == 'B')) { radix = 2; i += 2; }
  else if (len - i > 2 && t[i] == '0' && (t[i + 1] == 'o' || t[i + 1] == 'O')) { radix = 8; i += 2; }
  else if (len - i > 1 && t[i] == '0') { radix = 8; i += 1; }
  if (i >= len)
    return false;
  u128 acc = 0;
  for (; i < len; ++i)
    {
      int d = digit_of (t[i]);
      if (d >= radix)
        return false;
      acc = acc * radix + d;
      if (acc > (((u128) 1 << 64) - 1))
        return false;
    }
  if (neg && acc > ((u128) 1 << 63))
    return false;
  val = neg ? -(i128) acc : (i128) acc;
  return true;
}

static inline bool alnum_ (unsigned char c)
{ return c == '_' || (c >= 'a' && c <= 'z') || (c >= 'A' && c <= 'Z') || (c >= '0' && c <= '9'); }

static inline void
check_token (unsigned char *tok, unsigned len)
{
  // what the lexer's INT rule admits: "-"? [0-9] [_a-zA-Z0-9]*
  unsigned i = 0;
  if (tok[0] == '-') i = 1;
  vp_assume (i < len && tok[i] >= '0' && tok[i] <= '9');
  for (unsigned j = i + 1; j < len; ++j)
    vp_assume (alnum_ (tok[j]));
  tok[len] = 0;       // the lexer hands over NUL-terminated yytext
#ifdef VP_KF_int_reprefix
  // known finding int_reprefix: a second "0x"/"0X" after the hexadecimal prefix is accepted
  // by strtoull (0x0x5 reads as 5)
  {
    unsigned k = i;
    if (len - k > 4 && tok[k] == '0' && (tok[k + 1] == 'x' || tok[k + 1] == 'X'))
      vp_assume (!(tok[k + 2] == '0' && (tok[k + 3] == 'x' || tok[k + 3] == 'X')));
  }
#endif
  i128 want = 0;
  int radix = 10;
  bool ok = ref_parse (tok, len, want, radix);
  bool threw = false, foreign = false;
  constant got;
  try
    {
      got = parse_int (strlit {reinterpret_cast <char const *> (tok), len});
    }
  catch (std::exception const &)
    {
      threw = true;
    }
  catch (...)
    {
      threw = true;
      foreign = true;
    }
  vp_assert (!foreign, "only std::exception-derived errors leave parse_int");
  vp_assert (threw == !ok, "a literal is rejected iff it is invalid or out of [-2^63, 2^64-1]");
  if (!threw && ok)
    {
      mpz_class v = got.value ();
      i128 have = v.m_sign == signedness::sign ? (i128) v.m_i : (i128) v.m_u;
      vp_assert (have == want, "the literal denotes its exact value");
      constant_dom const *d = got.dom ();
      vp_assert (d == (radix == 16 ? &hex_constant_dom : radix == 8 ? &oct_constant_dom : radix == 2 ? &bin_constant_dom
                       : &dec_constant_dom), "the literal carries the domain of its radix");
    }
}

// all tokens of exactly LEN characters (LEN = 1..VP_LEN are separate harnesses)
template <unsigned LEN> static inline void
h_token ()
{
  unsigned char tok[LEN + 1];
  for (unsigned i = 0; i < LEN; ++i)
    tok[i] = vp_nondet_u8 ();
  check_token (tok, LEN);
}

// boundary literals: optional '-', then a maximal-length digit string in one radix whose last two
// characters are symbolic (values around 2^63 and 2^64)
template <int RADIX> static inline void
h_boundary ()
{
  // 2^64-1: hex ffffffffffffffff (16), dec 18446744073709551615 (20), oct 1777777777777777777777 (22)
  static const char *body = RADIX == 16 ? "0xffffffffffffffff" : RADIX == 10 ? "18446744073709551615" : "01777777777777777777777";
  static const char *body63 = RADIX == 16 ? "0x8000000000000000" : RADIX == 10 ? "9223372036854775808" : "01000000000000000000000";
  unsigned char tok[32];
  unsigned n = 0;
  bool neg = vp_nondet_bool ();
  bool use63 = vp_nondet_bool ();
  if (neg)
    tok[n++] = '-';
  const char *b = use63 ? body63 : body;
  unsigned bl = 0;
  while (b[bl])
    ++bl;
  for (unsigned i = 0; i < bl; ++i)
    tok[n++] = (unsigned char) b[i];
  tok[n - 1] = vp_nondet_u8 ();
  tok[n - 2] = vp_nondet_u8 ();
  bool extra = vp_nondet_bool ();
  if (extra)
    tok[n++] = vp_nondet_u8 ();       // one digit more: overlong
  check_token (tok, n);
}

VP_HARNESS (c14_int_len1) { h_token<1> (); }
VP_HARNESS (c14_int_len2) { h_token<2> (); }
VP_HARNESS (c14_int_len3) { h_token<3> (); }
VP_HARNESS (c14_int_len4) { h_token<4> (); }
VP_HARNESS (c14_int_len5) { h_token<5> (); }
VP_HARNESS (c14_int_bound16) { h_boundary<16> (); }
VP_HARNESS (c14_int_bound10) { h_boundary<10> (); }
VP_HARNESS (c14_int_bound8) { h_boundary<8> (); }
