// C08 / C14 (kernel) -- integer literals: parse_int (parser.yy) either yields the exact value of
// the documented literal syntax  "-"?("0x"|"0o"|"0b"|"0"|""){digits}  in the right radix domain,
// or leaves a std::exception-derived error; nothing else escapes, nothing is read outside the token.
// The generated parser is compiled INTO this translation unit so that the function in parser.yy's
// anonymous namespace can be called directly.
#include "parser.cc"          // bison output of /repo/libzwerg/parser.yy, regenerated at check time
#include "vp.h"

#ifndef VP_LEN
#define VP_LEN 5
#endif

typedef __int128 i128;
typedef unsigned __int128 u128;

static inline int digit_of (unsigned char c)
{
  if (c >= '0' && c <= '9') return c - '0';
  if (c >= 'a' && c <= 'f') return c - 'a' + 10;
  if (c >= 'A' && c <= 'F') return c - 'A' + 10;
  return 99;
}

// reference reading of a token per doc/syntax.rst; returns false if the literal is invalid or out of range
static inline bool
ref_parse (unsigned char const *t, unsigned len, i128 &val, int &radix)
{
  unsigned i = 0;
  bool neg = false;
  if (i < len && t[i] == '-') { neg = true; ++i; }
  radix = 10;
  if (len - i > 2 && t[i] == '0' && (t[i + 1] == 'x' || t[i + 1] == 'X')) { radix = 16; i += 2; }
  else if (len - i > 2 && t[i] == '0' && (t[i + 1] == 'b' || t[i + 1] == 'B')) { radix = 2; i += 2; }
  else if (len - i > 2 && t[i] == '0' && (t[i + 1] == 'o' || t[i + 1] == 'O')) { radix = 8; i += 2; }
  else if (len - i > 1 && t[i] == '0') { radix = 8; i += 1; }
  if (i >= len)
    return false;
  u128 acc = 0;
  for (; i < len; ++i)
    {
      int d = digit_of (t[i]);
      if (d >= radix)
        return false;
      acc = acc * radix + d;
      if (acc > (((u128) 1 << 64) - 1))
        return false;
    }
  if (neg && acc > ((u128) 1 << 63))
    return false;
  val = neg ? -(i128) acc : (i128) acc;
  return true;
}

static inline bool alnum_ (unsigned char c)
{ return c == '_' || (c >= 'a' && c <= 'z') || (c >= 'A' && c <= 'Z') || (c >= '0' && c <= '9'); }

// `neg' and `len' are concrete per harness (control stays concrete, DESIGN 0.2); bytes are symbolic
static inline void
check_token (unsigned char *tok, unsigned len, bool neg)
{
  // what the lexer's INT rule admits: "-"? [0-9] [_a-zA-Z0-9]*
  unsigned i = neg ? 1 : 0;
  vp_assume (tok[i] >= '0' && tok[i] <= '9');
  for (unsigned j = i + 1; j < len; ++j)
    vp_assume (alnum_ (tok[j]));
  tok[len] = 0;       // the lexer hands over NUL-terminated yytext
#ifdef VP_KF_int_reprefix
  // known finding int_reprefix: a second "0x"/"0X" after the hexadecimal prefix is accepted
  // by strtoull (0x0x5 reads as 5)
  if (len - i > 4 && tok[i] == '0' && (tok[i + 1] == 'x' || tok[i + 1] == 'X'))
    vp_assume (!(tok[i + 2] == '0' && (tok[i + 3] == 'x' || tok[i + 3] == 'X')));
#endif
  i128 want = 0;
  int radix = 10;
  bool ok = ref_parse (tok, len, want, radix);
  bool threw = false, foreign = false;
  constant got;
  try
    {
      got = parse_int (strlit {reinterpret_cast <char const *> (tok), len});
    }
  catch (std::exception const &)
    {
      threw = true;
    }
  catch (...)
    {
      threw = true;
      foreign = true;
    }
  vp_assert (!foreign, "only std::exception-derived errors leave parse_int");
  vp_assert (threw == !ok, "a literal is rejected iff it is invalid or out of [-2^63, 2^64-1]");
  if (!threw && ok)
    {
      mpz_class v = got.value ();
      i128 have = v.m_sign == signedness::sign ? (i128) v.m_i : (i128) v.m_u;
      vp_assert (have == want, "the literal denotes its exact value");
      constant_dom const *d = got.dom ();
      vp_assert (d == (radix == 16 ? &hex_constant_dom : radix == 8 ? &oct_constant_dom : radix == 2 ? &bin_constant_dom
                       : &dec_constant_dom), "the literal carries the domain of its radix");
    }
}

// Tokens of LEN characters after the optional sign.  The first two characters decide parse_int's
// control flow (prefix detection), so they are scenario digits: first character '0'..'9', second
// character one representative of every class the code or strtoull distinguishes; the remaining
// characters are symbolic bytes.  The scenario number is symbolic inside a chunk (DESIGN 0.2).
static const char SECOND[] = "xXbBoO0127 89afgzAFGZ_";    // ' ' is skipped (no such token)
#define NSECOND 22
template <unsigned LEN, bool NEG> static inline void
run_token (uint64_t k)
{
  unsigned char tok[LEN + 2];
  unsigned n = 0;
  if (NEG)
    tok[n++] = '-';
  tok[n++] = (unsigned char) ('0' + k % 10);
  if (LEN >= 2)
    {
      char c = SECOND[(k / 10) % NSECOND];
      if (c == ' ')
        return;
      tok[n++] = (unsigned char) c;
    }
  for (unsigned i = 2; i < LEN; ++i)
    tok[n++] = vp_nondet_u8 ();
  check_token (tok, n, NEG);
}
template <unsigned LEN, bool NEG> static inline void
h_token ()
{
  uint64_t N = LEN >= 2 ? 10 * NSECOND : 10;
  uint64_t lo = vp_range_lo (), hi = vp_range_hi ();
  if (hi > N) hi = N;
  uint64_t scen = vp_nondet_u64 ();
  vp_assume (scen >= lo && scen < hi);
  for (uint64_t k = lo; k < hi; ++k)
    if (scen == k)
      run_token<LEN, NEG> (k);
}

// boundary literals: a maximal-length digit string in one radix (2^64-1 or 2^63) whose last two
// characters are symbolic, optionally one character longer
template <int RADIX, bool NEG, bool USE63, bool EXTRA> static inline void
h_boundary ()
{
  const char *b = USE63 ? (RADIX == 16 ? "0x8000000000000000" : RADIX == 10 ? "9223372036854775808" : "01000000000000000000000")
                        : (RADIX == 16 ? "0xffffffffffffffff" : RADIX == 10 ? "18446744073709551615" : "01777777777777777777777");
  unsigned char tok[32];
  unsigned n = 0;
  if (NEG)
    tok[n++] = '-';
  for (unsigned i = 0; b[i]; ++i)
    tok[n++] = (unsigned char) b[i];
  tok[n - 1] = vp_nondet_u8 ();
  tok[n - 2] = vp_nondet_u8 ();
  if (EXTRA)
    tok[n++] = vp_nondet_u8 ();       // one digit more: overlong
  check_token (tok, n, NEG);
}

#define TOK(L) VP_HARNESS (c14_int_len##L) { h_token<L, false> (); } VP_HARNESS (c14_int_neg_len##L) { h_token<L, true> (); }
TOK (1) TOK (2) TOK (3) TOK (4)
#define BND(R) \
  VP_HARNESS (c14_int_bound##R##_max) { h_boundary<R, false, false, false> (); } \
  VP_HARNESS (c14_int_bound##R##_max_long) { h_boundary<R, false, false, true> (); } \
  VP_HARNESS (c14_int_bound##R##_negmax) { h_boundary<R, true, false, false> (); } \
  VP_HARNESS (c14_int_bound##R##_63) { h_boundary<R, false, true, false> (); } \
  VP_HARNESS (c14_int_bound##R##_neg63) { h_boundary<R, true, true, false> (); } \
  VP_HARNESS (c14_int_bound##R##_neg63_long) { h_boundary<R, true, true, true> (); }
BND (16) BND (10) BND (8)
