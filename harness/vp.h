/* harness primitives (DESIGN 2.4).  Under the IR->C->CBMC pipeline vp_assume /
   vp_assert / vp_witness / vp_cover are lowered to CBMC primitives by ll2c; compiled
   natively they are implemented by stubs/vp_native.c (replay). */
#ifndef VP_H
#define VP_H
#include <stdint.h>
#include <stddef.h>
extern "C" {
uint64_t vp_nondet_u64 (void);
uint32_t vp_nondet_u32 (void);
uint16_t vp_nondet_u16 (void);
uint8_t vp_nondet_u8 (void);
bool vp_nondet_bool (void);
void vp_assume (bool c);
void vp_assert (bool c, const char *id);   /* id must be a string literal */
void vp_witness (const char *id);          /* expected reachable (vacuity guard) */
void vp_cover (bool c, const char *id);    /* expected satisfiable */
void vp_observe (uint64_t v);
uint64_t vp_range_lo (void);                /* scenario sub-range of this solver run (whole range natively) */
uint64_t vp_range_hi (void);              /* no-op under CBMC; logged natively */
void __vp_init (void);                     /* static initialisers of the lowered module */
bool vp_exc_pending (void);                /* lowered code only: an exception escaped */
void vp_exc_clear (void);
}
/* every entry is declared through this macro: one extern "C" entry that runs the
   static initialisers, the body, and ends in the witness */
#define VP_HARNESS(name)                                        \
  static void name##__body ();                                  \
  extern "C" void name () { __vp_init (); try { name##__body (); } catch (...) { vp_assert (false, #name ": uncaught exception"); } vp_witness (#name); } \
  static void name##__body ()
#endif
