// real libstdc++ header code for the templates that are normally "extern template"
// (DESIGN 2.1): compiled to IR and linked into every module that uses std::string.
#include <string>
#include <memory>
template class std::allocator<char>;
template class std::basic_string<char>;
