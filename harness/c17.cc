// C17 (kernel) -- each location-expression operation reports its operands with the number,
// signedness and domain of its operand class.
// Encoded: dwop_number / dwop_number2 = locexpr_op_values<0/1> (atval.cc) with pass_single_value,
// select<N>, null_producer, value_cst, constant.
// Scenario digit: the opcode (all 256 values; concrete inside a scenario because the opcode
// switch selects which producer objects are allocated, DESIGN 0.2).  Symbolic: both 64-bit operands.
// Oracle: operand classes written from the DWARF 5 standard (section 2.5, 7.7.1) and the GNU
// extensions' documentation, independently of atval.cc.  Opcodes whose operands need libdw to be
// resolved (implicit_value, implicit_pointer, entry_value, const_type and their GNU twins) are
// outside this kernel.
#include "vp.h"
#include "atval.hh"
#include "value-cst.hh"
#include <dwarf.h>

enum cls { NONE, U1_HEX, U1, S1, U2, U1S1, LIBDW };

static inline cls
operand_class (unsigned op)
{
  if (op >= DW_OP_breg0 && op <= DW_OP_breg31)
    return S1;
  switch (op)
    {
    case DW_OP_addr: case DW_OP_call_ref:
      return U1_HEX;
    case DW_OP_const1u: case DW_OP_const2u: case DW_OP_const4u: case DW_OP_const8u: case DW_OP_constu:
    case DW_OP_pick: case DW_OP_plus_uconst: case DW_OP_regx: case DW_OP_piece: case DW_OP_deref_size:
    case DW_OP_xderef_size: case DW_OP_call2: case DW_OP_call4:
    case DW_OP_GNU_convert: case DW_OP_GNU_reinterpret: case DW_OP_GNU_parameter_ref:
    case DW_OP_convert: case DW_OP_reinterpret: case DW_OP_addrx: case DW_OP_constx:
    case DW_OP_GNU_addr_index: case DW_OP_GNU_const_index:
      return U1;
    case DW_OP_const1s: case DW_OP_const2s: case DW_OP_const4s: case DW_OP_const8s: case DW_OP_consts:
    case DW_OP_fbreg: case DW_OP_skip: case DW_OP_bra:
      return S1;
    case DW_OP_bit_piece: case DW_OP_GNU_regval_type: case DW_OP_GNU_deref_type:
    case DW_OP_regval_type: case DW_OP_deref_type: case DW_OP_xderef_type:
      return U2;
    case DW_OP_bregx:
      return U1S1;
    case DW_OP_implicit_value: case DW_OP_GNU_implicit_pointer: case DW_OP_implicit_pointer:
    case DW_OP_GNU_entry_value: case DW_OP_entry_value: case DW_OP_GNU_const_type: case DW_OP_const_type:
    case DW_OP_GNU_variable_value: case DW_OP_GNU_encoded_addr:
      return LIBDW;
    default:
      return NONE;
    }
}

typedef __int128 i128;
static inline i128 den (constant const &c)
{
  mpz_class v = c.value ();
  return v.m_sign == signedness::sign ? (i128) v.m_i : (i128) v.m_u;
}

static inline void
run_op (unsigned atom)
{
  cls c = operand_class (atom);
#ifdef VP_KF_dwarf5_ops
  // known finding dwarf5_ops: the DWARF 5 opcodes that replaced the GNU extensions are not decoded
  if (atom == DW_OP_convert || atom == DW_OP_reinterpret || atom == DW_OP_addrx || atom == DW_OP_constx
      || atom == DW_OP_regval_type || atom == DW_OP_deref_type || atom == DW_OP_xderef_type
      || atom == DW_OP_GNU_addr_index || atom == DW_OP_GNU_const_index)
    return;
#endif
  if (c == LIBDW)
    return;
  Dwarf_Op op;
  op.atom = (uint8_t) atom;
  op.number = vp_nondet_u64 ();
  op.number2 = vp_nondet_u64 ();
  op.offset = vp_nondet_u64 ();
  Dwarf_Attribute at = {};
  std::shared_ptr <dwfl_context> ctx;
  auto p1 = dwop_number (ctx, at, &op);
  auto p2 = dwop_number2 (ctx, at, &op);
  auto v1 = p1->next ();
  auto v2 = p2->next ();
  unsigned want = c == NONE ? 0 : (c == U2 || c == U1S1) ? 2 : 1;
  vp_assert ((v1 != nullptr) == (want >= 1), "first operand present iff the opcode has one");
  vp_assert ((v2 != nullptr) == (want >= 2), "second operand present iff the opcode has two");
  if (v1 != nullptr && want >= 1)
    {
      vp_assert (p1->next () == nullptr, "an operand is yielded once");
      auto cst = value::as <value_cst> (v1.get ());
      vp_assert (cst != nullptr, "operand is a constant");
      if (cst != nullptr)
        {
          constant k = cst->get_constant ();
          if (c == S1)
            vp_assert (den (k) == (i128) (int64_t) op.number, "signed operand: the stored word read as signed");
          else
            vp_assert (den (k) == (i128) op.number, "unsigned operand: the stored word");
          vp_assert (k.dom () == (c == U1_HEX ? &hex_constant_dom : &dec_constant_dom), "operand domain (addresses hexadecimal)");
        }
    }
  if (v2 != nullptr && want >= 2)
    {
      auto cst = value::as <value_cst> (v2.get ());
      vp_assert (cst != nullptr, "second operand is a constant");
      if (cst != nullptr)
        {
          constant k = cst->get_constant ();
          if (c == U1S1)
            vp_assert (den (k) == (i128) (int64_t) op.number2, "second operand of bregx is signed");
          else
            vp_assert (den (k) == (i128) op.number2, "second operand: the stored word");
        }
    }
}

VP_HARNESS (c17_operands)
{
  uint64_t lo = vp_range_lo (), hi = vp_range_hi ();
  if (hi > 256) hi = 256;
  uint64_t scen = vp_nondet_u64 ();
  vp_assume (scen >= lo && scen < hi);
  for (uint64_t k = lo; k < hi; ++k)
    if (scen == k)
      run_op ((unsigned) k);
}
