// C01 -- stream semantics: per-operator protocol refinement (DESIGN 6/C01).
// Each harness builds ONE real operator (wired exactly as build.cc wires it) between
// an epoch source (upstream) and mapping stubs (sub-expressions), pulls it to
// exhaustion in every epoch and compares what came out with the construct's
// documented denotation applied to every input stack separately.
#define VP_OPS_IMPL
#include "ops.hh"
#include "value-seq.hh"
#include "value-str.hh"

#ifndef VP_T
#define VP_T 3          // input stacks
#endif
#ifndef VP_E
#define VP_E 2          // epochs (re-feeds of the upstream)
#endif
#define MAXF 6          // max results per input of a denotation

struct denot { unsigned n; uint64_t v[MAXF]; };

// inputs: stack i = [i, tok_i]; the below-slot identifies the input a result came from
struct inputs
{
  unsigned n;
  uint64_t tok[VP_T];
  unsigned ep_end[VP_E];      // stacks [ep_end[e-1], ep_end[e]) are fed in epoch e
};

static inline void
nd_inputs (inputs &in, U_src &u)
{
  unsigned n = vp_nondet_u8 ();
  vp_assume (n <= VP_T);
  in.n = n;
  u.m_n = n;
  u.m_two = true;
  for (unsigned i = 0; i < VP_T; ++i)
    {
      in.tok[i] = nd_tok ();
      u.m_tok[i] = in.tok[i];
      u.m_below[i] = i;
    }
  unsigned prev = 0;
  for (unsigned e = 0; e < VP_E; ++e)
    {
      unsigned end = vp_nondet_u8 ();
      vp_assume (end >= prev && end <= n);
      if (e == VP_E - 1)
        vp_assume (end == n);
      in.ep_end[e] = end;
      prev = end;
    }
}

// pull X to exhaustion in every epoch
template <unsigned P> static inline void
drive (std::shared_ptr <op> const &x, U_src const &u, layout &l, inputs const &in, reslog &log)
{
  scon sc {l};
  x->state_con (sc);
  for (unsigned e = 0; e < VP_E; ++e)
    {
      u.feed (sc, in.ep_end[e]);
      bool drained = false;
      for (unsigned p = 0; p < P; ++p)
        {
          auto r = x->next (sc);
          if (r == nullptr)
            {
              drained = true;
              break;
            }
          log.add (*r, e);
        }
      vp_assert (drained, "operator answers nullptr after finitely many results (within the pull bound)");
      // re-feedability: asking again without new input yields nothing and does not crash
      auto again = x->next (sc);
      vp_assert (again == nullptr, "no stale result after nullptr");
    }
  x->state_des (sc);
}

static inline unsigned
epoch_of (inputs const &in, unsigned i)
{
  unsigned e = 0;
  for (unsigned k = 0; k < VP_E; ++k)
    if (i >= in.ep_end[k])
      e = k + 1;
  return e;
}

// compare the log with the denotation F_i of every input
static inline void
check (inputs const &in, denot const *F, reslog const &log, unsigned exp_depth)
{
  unsigned total = 0;
  for (unsigned i = 0; i < VP_T; ++i)
    if (i < in.n)
      total += F[i].n;
  vp_assert (log.n == total, "number of results = sum over inputs of the construct's results for that input");
  for (unsigned r = 0; r < 16; ++r)
    if (r < log.n)
      {
        vp_assert (log.depth[r] == exp_depth, "result depth");
        vp_assert (log.below[r] < in.n, "result derives from one of the inputs");
        if (log.below[r] < in.n)
          vp_assert (log.epoch[r] == epoch_of (in, log.below[r]), "result is yielded in the epoch its input was fed (nothing kept back)");
      }
  for (unsigned i = 0; i < VP_T; ++i)
    if (i < in.n)
      {
        // multiset equality per input, by token value
        for (uint64_t v = 0; v < VP_D; ++v)
          {
            unsigned want = 0, got = 0;
            for (unsigned k = 0; k < MAXF; ++k)
              if (k < F[i].n && F[i].v[k] == v)
                ++want;
            for (unsigned r = 0; r < 16; ++r)
              if (r < log.n && log.below[r] == i && log.top[r] == v)
                ++got;
            vp_assert (want == got, "multiset of results for each input equals the denotation on that input alone");
          }
        // order when the input was alone in its epoch
        unsigned e = epoch_of (in, i);
        unsigned lo = e == 0 ? 0 : in.ep_end[e - 1];
        if (in.ep_end[e] - lo == 1)
          {
            unsigned k = 0;
            for (unsigned r = 0; r < 16; ++r)
              if (r < log.n && log.below[r] == i)
                {
                  if (k < MAXF)
                    vp_assert (log.top[r] == F[i].v[k], "a construct fed one stack yields its results in documented order");
                  ++k;
                }
          }
      }
}

static inline void
app (denot &d, S_map const &s, uint64_t t)
{
  for (unsigned k = 0; k < VP_M; ++k)
    if (k < s.m_cnt[t] && d.n < MAXF)
      d.v[d.n++] = s.m_out[t][k];
}

// ------------------------------------------------------------------ ALT: (S0, S1)
VP_HARNESS (c01_alt2)
{
  layout l;
  auto u = std::make_shared <U_src> (l);
  inputs in;
  nd_inputs (in, *u);
  auto merge = std::make_shared <op_merge> (l, u);
  std::shared_ptr <S_map> s[2];
  for (unsigned b = 0; b < 2; ++b)
    {
      auto tine = std::make_shared <op_tine> (*merge, b);
      s[b] = std::make_shared <S_map> (l, tine);
      s[b]->randomize ();
      merge->add_branch (s[b]);
    }
  reslog log;
  drive <VP_T * 2 * VP_M + 1> (merge, *u, l, in, log);
  denot F[VP_T];
  for (unsigned i = 0; i < VP_T; ++i)
    {
      F[i].n = 0;
      app (F[i], *s[0], in.tok[i]);
      app (F[i], *s[1], in.tok[i]);
    }
  check (in, F, log, 2);
}

// ------------------------------------------------------------------ OR: (S0 || S1)
VP_HARNESS (c01_or2)
{
  layout l;
  auto u = std::make_shared <U_src> (l);
  inputs in;
  nd_inputs (in, *u);
  auto o = std::make_shared <op_or> (l, u);
  std::shared_ptr <S_map> s[2];
  for (unsigned b = 0; b < 2; ++b)
    {
      auto origin = std::make_shared <op_origin> (l);
      s[b] = std::make_shared <S_map> (l, origin);
      s[b]->randomize ();
      o->add_branch (origin, s[b]);
    }
  reslog log;
  drive <VP_T * VP_M + 1> (o, *u, l, in, log);
  denot F[VP_T];
  for (unsigned i = 0; i < VP_T; ++i)
    {
      F[i].n = 0;
      app (F[i], *s[0], in.tok[i]);
      if (F[i].n == 0)
        app (F[i], *s[1], in.tok[i]);
    }
  check (in, F, log, 2);
}

// ------------------------------------------------------------------ ASSERT: ?P
VP_HARNESS (c01_assert)
{
  layout l;
  auto u = std::make_shared <U_src> (l);
  inputs in;
  nd_inputs (in, *u);
  auto p = std::make_unique <P_sym> ();
  p->randomize ();
  P_sym const *pp = p.get ();
  std::shared_ptr <op> a = std::make_shared <op_assert> (u, std::move (p));
  reslog log;
  drive <VP_T + 1> (a, *u, l, in, log);
  denot F[VP_T];
  for (unsigned i = 0; i < VP_T; ++i)
    {
      F[i].n = 0;
      if (pp->m_res[in.tok[i]] == pred_result::yes)
        F[i].v[F[i].n++] = in.tok[i];
    }
  check (in, F, log, 2);
}

// ------------------------------------------------------------------ IFELSE: if Sc then St else Se
VP_HARNESS (c01_ifelse)
{
  layout l;
  auto u = std::make_shared <U_src> (l);
  inputs in;
  nd_inputs (in, *u);
  std::shared_ptr <op_origin> org[3];
  std::shared_ptr <S_map> s[3];
  layout sub[3] = {l, l, l};
  for (unsigned b = 0; b < 3; ++b)
    {
      org[b] = std::make_shared <op_origin> (sub[b]);
      s[b] = std::make_shared <S_map> (sub[b], org[b]);
      s[b]->randomize ();
    }
  l.add_union ({sub[0], sub[1], sub[2]});
  std::shared_ptr <op> x = std::make_shared <op_ifelse> (l, u, org[0], s[0], org[1], s[1], org[2], s[2]);
  reslog log;
  drive <VP_T * VP_M + 1> (x, *u, l, in, log);
  denot F[VP_T];
  for (unsigned i = 0; i < VP_T; ++i)
    {
      F[i].n = 0;
      if (s[0]->m_cnt[in.tok[i]] > 0)
        app (F[i], *s[1], in.tok[i]);
      else
        app (F[i], *s[2], in.tok[i]);
    }
  check (in, F, log, 2);
}

// ------------------------------------------------------------------ SUBX keep=1: (input, S)
// result = input stack + the top value of each sub-result
VP_HARNESS (c01_subx)
{
  layout l;
  auto u = std::make_shared <U_src> (l);
  inputs in;
  nd_inputs (in, *u);
  auto origin = std::make_shared <op_origin> (l);
  auto s = std::make_shared <S_map> (l, origin);
  s->randomize ();
  std::shared_ptr <op> x = std::make_shared <op_subx> (l, u, origin, s, 1);
  // drive by hand: results have depth 3 = [i, tok_i, out]
  scon sc {l};
  x->state_con (sc);
  unsigned got[VP_T];
  for (unsigned i = 0; i < VP_T; ++i)
    got[i] = 0;
  for (unsigned e = 0; e < VP_E; ++e)
    {
      u->feed (sc, in.ep_end[e]);
      bool drained = false;
      for (unsigned p = 0; p < VP_T * VP_M + 1; ++p)
        {
          auto r = x->next (sc);
          if (r == nullptr)
            {
              drained = true;
              break;
            }
          vp_assert (r->size () == 3, "subx: result = input stack plus `keep' values");
          if (r->size () == 3)
            {
              uint64_t i = tok_at (*r, 2);
              vp_assert (i < in.n && epoch_of (in, i) == e, "subx: result derives from an input of this epoch");
              if (i < in.n)
                {
                  vp_assert (tok_at (*r, 1) == in.tok[i], "subx: the caller's stack is intact below the kept value");
                  unsigned k = got[i]++;
                  vp_assert (k < s->m_cnt[in.tok[i]], "subx: not more results than the sub-expression yields");
                  if (k < VP_M)
                    vp_assert (tok_at (*r, 0) == s->m_out[in.tok[i]][k], "subx: kept value is the sub-result's top, in order");
                }
            }
        }
      vp_assert (drained, "subx: terminates");
    }
  for (unsigned i = 0; i < VP_T; ++i)
    if (i < in.n)
      vp_assert (got[i] == s->m_cnt[in.tok[i]], "subx: one result per sub-result for every input");
  x->state_des (sc);
}

// ------------------------------------------------------------------ CAPTURE: [S]
VP_HARNESS (c01_capture)
{
  layout l;
  auto u = std::make_shared <U_src> (l);
  inputs in;
  nd_inputs (in, *u);
  auto origin = std::make_shared <op_origin> (l);
  auto s = std::make_shared <S_map> (l, origin);
  s->randomize ();
  std::shared_ptr <op> x = std::make_shared <op_capture> (u, origin, s);
  scon sc {l};
  x->state_con (sc);
  unsigned seen = 0;
  for (unsigned e = 0; e < VP_E; ++e)
    {
      u->feed (sc, in.ep_end[e]);
      bool drained = false;
      for (unsigned p = 0; p < VP_T + 1; ++p)
        {
          auto r = x->next (sc);
          if (r == nullptr)
            {
              drained = true;
              break;
            }
          vp_assert (r->size () == 3, "capture: exactly one value is added");
          if (r->size () == 3)
            {
              uint64_t i = tok_at (*r, 2);
              vp_assert (i == seen, "capture: exactly one result per input, in input order");
              vp_assert (i < in.n && epoch_of (in, i) == e, "capture: result derives from an input of this epoch");
              if (i < in.n)
                {
                  vp_assert (tok_at (*r, 1) == in.tok[i], "capture: the stack below the sequence is intact");
                  auto seq = value::as <value_seq> (&r->get (0));
                  vp_assert (seq != nullptr, "capture: top is a sequence");
                  if (seq != nullptr)
                    {
                      auto const &vv = *seq->get_seq ();
                      vp_assert (vv.size () == s->m_cnt[in.tok[i]], "capture: sequence length = number of sub-results");
                      for (unsigned k = 0; k < VP_M; ++k)
                        if (k < vv.size ())
                          vp_assert (static_cast <value_tok const &> (*vv[k]).m_tok == s->m_out[in.tok[i]][k],
                                     "capture: sequence keeps the order of the sub-results");
                    }
                }
              ++seen;
            }
        }
      vp_assert (drained, "capture: terminates");
      vp_assert (seen == in.ep_end[e], "capture: every input of the epoch produced its sequence");
    }
  x->state_des (sc);
}

// ------------------------------------------------------------------ nesting: ALT inside an OR branch
// ((S0, S1) || S2)
VP_HARNESS (c01_alt_in_or)
{
  layout l;
  auto u = std::make_shared <U_src> (l);
  inputs in;
  nd_inputs (in, *u);
  auto o = std::make_shared <op_or> (l, u);
  auto origin0 = std::make_shared <op_origin> (l);
  auto merge = std::make_shared <op_merge> (l, origin0);
  std::shared_ptr <S_map> s[3];
  for (unsigned b = 0; b < 2; ++b)
    {
      auto tine = std::make_shared <op_tine> (*merge, b);
      s[b] = std::make_shared <S_map> (l, tine);
      s[b]->randomize ();
      merge->add_branch (s[b]);
    }
  o->add_branch (origin0, merge);
  auto origin1 = std::make_shared <op_origin> (l);
  s[2] = std::make_shared <S_map> (l, origin1);
  s[2]->randomize ();
  o->add_branch (origin1, s[2]);
  reslog log;
  drive <VP_T * 2 * VP_M + 1> (o, *u, l, in, log);
  denot F[VP_T];
  for (unsigned i = 0; i < VP_T; ++i)
    {
      F[i].n = 0;
      app (F[i], *s[0], in.tok[i]);
      app (F[i], *s[1], in.tok[i]);
      if (F[i].n == 0)
        app (F[i], *s[2], in.tok[i]);
    }
  check (in, F, log, 2);
}

// ------------------------------------------------------------------ nesting: ALT inside an ALT branch
// (S0, (S1, S2) S3)   -- the nested merge is re-fed through the outer tine
VP_HARNESS (c01_alt_in_alt)
{
  layout l;
  auto u = std::make_shared <U_src> (l);
  inputs in;
  nd_inputs (in, *u);
  auto outer = std::make_shared <op_merge> (l, u);
  std::shared_ptr <S_map> s[3];
  {
    auto tine = std::make_shared <op_tine> (*outer, 0);
    s[0] = std::make_shared <S_map> (l, tine);
    s[0]->randomize ();
    outer->add_branch (s[0]);
  }
  {
    auto tine = std::make_shared <op_tine> (*outer, 1);
    auto inner = std::make_shared <op_merge> (l, tine);
    for (unsigned b = 0; b < 2; ++b)
      {
        auto itine = std::make_shared <op_tine> (*inner, b);
        s[1 + b] = std::make_shared <S_map> (l, itine);
        s[1 + b]->randomize ();
        inner->add_branch (s[1 + b]);
      }
    outer->add_branch (inner);
  }
  reslog log;
  drive <VP_T * 3 * VP_M + 1> (outer, *u, l, in, log);
  denot F[VP_T];
  for (unsigned i = 0; i < VP_T; ++i)
    {
      F[i].n = 0;
      app (F[i], *s[0], in.tok[i]);
      app (F[i], *s[1], in.tok[i]);
      app (F[i], *s[2], in.tok[i]);
    }
  check (in, F, log, 2);
}
