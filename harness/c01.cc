// C01 -- stream semantics: per-operator protocol refinement (DESIGN 6/C01).
// Each harness builds ONE real operator (wired exactly as build.cc wires it) between
// an epoch source (upstream) and mapping stubs (sub-expressions), pulls it to
// exhaustion in every epoch and compares what came out with the construct's
// documented denotation applied to every input stack separately.
//
// Scenario digits (see ops.hh): number of inputs n <= VP_T, size of the first re-feed
// epoch, per sub-expression and input the number of results (<= maxcnt).  Payload
// tokens (input tokens, every result token) are symbolic.
#define VP_OPS_IMPL
#include "ops.hh"
#include "value-seq.hh"
#include "value-str.hh"

#ifndef VP_T
#define VP_T 2          // input stacks
#endif
#define VP_E 2          // epochs (re-feeds of the upstream)
#ifndef VP_MAXC
#define VP_MAXC 1       // max results per input of a sub-expression in the 1- and 2-sub-expression harnesses
#endif
#define MAXF 6          // max results per input of a denotation

struct denot { unsigned n; uint64_t v[MAXF]; };

// inputs: stack i = [i, tok_i]; the id slot identifies the input a result came from
struct inputs
{
  unsigned n;
  uint64_t tok[VP_T];
  unsigned ep_end[VP_E];      // stacks [ep_end[e-1], ep_end[e]) are fed in epoch e
  bool valid;
};

static inline void
mk_inputs (cfgdec &d, inputs &in, U_src &u)
{
  unsigned n = d.take (VP_T + 1);
  unsigned first = d.take (VP_T + 1);
  in.valid = first <= n;
  in.n = n;
  u.m_n = n;
  u.m_two = true;
  for (unsigned i = 0; i < VP_T; ++i)
    {
      in.tok[i] = nd_tok ();
      u.m_tok[i] = in.tok[i];
      u.m_below[i] = i;
    }
  in.ep_end[0] = first;
  in.ep_end[1] = n;
}

static inline unsigned
epoch_of (inputs const &in, unsigned i)
{
  return i < in.ep_end[0] ? 0 : 1;
}

// C13: when >= 0 the result set is abandoned after that many pulls (state destroyed half-way)
static int g_abandon = -1;

// pull X to exhaustion in every epoch
static inline void
drive (std::shared_ptr <op> const &x, U_src const &u, layout &l, inputs const &in, reslog &log, unsigned maxpulls)
{
  scon sc {l};
  x->state_con (sc);
  if (g_abandon >= 0)
    {
      // pull g_abandon results (or fewer if it runs dry), then walk away
      u.feed (sc, in.ep_end[0]);
      for (int p = 0; p < g_abandon; ++p)
        {
          auto r = x->next (sc);
          if (r == nullptr)
            break;
          log.add (*r, 0);
        }
      x->state_des (sc);
      return;
    }
  for (unsigned e = 0; e < VP_E; ++e)
    {
      u.feed (sc, in.ep_end[e]);
      bool drained = false;
      for (unsigned p = 0; p < maxpulls; ++p)
        {
          auto r = x->next (sc);
          if (r == nullptr)
            {
              drained = true;
              break;
            }
          log.add (*r, e);
        }
      vp_assert (drained, "operator answers nullptr after finitely many results (within the pull bound)");
      // re-feedability: asking again without new input yields nothing and does not crash
      auto again = x->next (sc);
      vp_assert (again == nullptr, "no stale result after nullptr");
    }
  x->state_des (sc);
}

// compare the log with the denotation F_i of every input
static inline void
check (inputs const &in, denot const *F, reslog const &log, unsigned exp_depth)
{
  if (g_abandon >= 0)
    return;
  unsigned total = 0;
  for (unsigned i = 0; i < in.n; ++i)
    total += F[i].n;
  vp_assert (log.n == total, "number of results = sum over inputs of the construct's results for that input");
  for (unsigned r = 0; r < log.n; ++r)
    {
      vp_assert (log.depth[r] == exp_depth, "result depth");
      vp_assert (log.below[r] < in.n, "result derives from one of the inputs");
      if (log.below[r] < in.n)
        vp_assert (log.epoch[r] == epoch_of (in, log.below[r]), "result is yielded in the epoch its input was fed (nothing kept back)");
    }
  for (unsigned i = 0; i < in.n; ++i)
    {
      // the results for input i, in the order they came out
      unsigned e = epoch_of (in, i);
      unsigned lo = e == 0 ? 0 : in.ep_end[0];
      bool alone = in.ep_end[e] - lo == 1;
      unsigned k = 0;
      bool used[MAXF] = {false, false, false, false, false, false};
      for (unsigned r = 0; r < log.n; ++r)
        if (log.below[r] == i)
          {
            if (alone)
              {
                if (k < F[i].n)
                  vp_assert (log.top[r] == F[i].v[k], "a construct fed one stack yields its results in documented order");
              }
            else
              {
                // multiset: match against a not yet used denotation element with the same token
                bool found = false;
                for (unsigned j = 0; j < F[i].n; ++j)
                  if (!found && !used[j] && F[i].v[j] == log.top[r])
                    {
                      used[j] = true;
                      found = true;
                    }
                vp_assert (found, "every result for an input is one of the construct's results for that input (multiset)");
              }
            ++k;
          }
      vp_assert (k == F[i].n, "as many results per input as the denotation on that input alone");
    }
}

static inline void
app (denot &d, S_map const &s, unsigned i)
{
  for (unsigned k = 0; k < s.m_cnt[i]; ++k)
    if (d.n < MAXF)
      d.v[d.n++] = s.m_out[i][k];
}

#ifdef VP_ONE_SCENARIO
#define VP_SCENARIOS(name, N)                                           \
  static void name##__run (uint64_t k);                                 \
  VP_HARNESS (name) { name##__run (VP_ONE_SCENARIO); }                  \
  static void name##__run (uint64_t k)
#else
#define VP_SCENARIOS(name, N)                                           \
  static void name##__run (uint64_t k);                                 \
  VP_HARNESS (name)                                                     \
  {                                                                     \
    uint64_t lo = vp_range_lo (), hi = vp_range_hi ();                  \
    if (hi > (N)) hi = (N);                                             \
    uint64_t scen = vp_nondet_u64 ();                                   \
    vp_assume (scen >= lo && scen < hi);                                \
    for (uint64_t k = lo; k < hi; ++k)                                  \
      if (scen == k)                                                    \
        name##__run (k);                                                \
  }                                                                     \
  static void name##__run (uint64_t k)
#endif

#define NIN ((VP_T + 1) * (VP_T + 1))
static inline uint64_t ipow (uint64_t b, unsigned e) { uint64_t r = 1; for (unsigned i = 0; i < e; ++i) r *= b; return r; }

// ------------------------------------------------------------------ ALT: (S0, S1)
#define N_ALT2 (NIN * ipow (VP_MAXC + 1, 2 * VP_T))
VP_SCENARIOS (c01_alt2, N_ALT2)
{
  cfgdec d {k};
  layout l;
  auto u = std::make_shared <U_src> (l);
  inputs in;
  mk_inputs (d, in, *u);
  auto merge = std::make_shared <op_merge> (l, u);
  std::shared_ptr <S_map> s[2];
  for (unsigned b = 0; b < 2; ++b)
    {
      auto tine = std::make_shared <op_tine> (*merge, b);
      s[b] = std::make_shared <S_map> (l, tine);
      s[b]->configure (d, VP_T, VP_MAXC);
      merge->add_branch (s[b]);
    }
  for (unsigned b = 0; b < 2; ++b)
    for (unsigned i = in.n; i < VP_T; ++i)
      if (s[b]->m_cnt[i] != 0)
        in.valid = false;       // duplicate encoding of the same scenario
  if (!in.valid)
    return;
  reslog log;
  drive (merge, *u, l, in, log, VP_T * 2 * VP_M + 1);
  denot F[VP_T];
  for (unsigned i = 0; i < VP_T; ++i)
    {
      F[i].n = 0;
      app (F[i], *s[0], i);
      app (F[i], *s[1], i);
    }
  check (in, F, log, 2);
}

// ------------------------------------------------------------------ OR: (S0 || S1)
VP_SCENARIOS (c01_or2, N_ALT2)
{
  cfgdec d {k};
  layout l;
  auto u = std::make_shared <U_src> (l);
  inputs in;
  mk_inputs (d, in, *u);
  auto o = std::make_shared <op_or> (l, u);
  std::shared_ptr <S_map> s[2];
  for (unsigned b = 0; b < 2; ++b)
    {
      auto origin = std::make_shared <op_origin> (l);
      s[b] = std::make_shared <S_map> (l, origin);
      s[b]->configure (d, VP_T, VP_MAXC);
      o->add_branch (origin, s[b]);
    }
  for (unsigned b = 0; b < 2; ++b)
    for (unsigned i = in.n; i < VP_T; ++i)
      if (s[b]->m_cnt[i] != 0)
        in.valid = false;
  if (!in.valid)
    return;
  reslog log;
  drive (o, *u, l, in, log, VP_T * VP_M + 1);
  denot F[VP_T];
  for (unsigned i = 0; i < VP_T; ++i)
    {
      F[i].n = 0;
      app (F[i], *s[0], i);
      if (F[i].n == 0)
        app (F[i], *s[1], i);
    }
  check (in, F, log, 2);
}

// ------------------------------------------------------------------ ASSERT: ?P
#define N_ASSERT (NIN * 9 * (VP_T > 2 ? 3 : 1))
VP_SCENARIOS (c01_assert, N_ASSERT)
{
  cfgdec d {k};
  layout l;
  auto u = std::make_shared <U_src> (l);
  inputs in;
  mk_inputs (d, in, *u);
  auto p = std::make_unique <P_sym> ();
  p->configure (d, VP_T);
  P_sym const *pp = p.get ();
  for (unsigned i = in.n; i < VP_T; ++i)
    if (pp->m_res[i] != pred_result::no)
      in.valid = false;
  if (!in.valid)
    return;
  std::shared_ptr <op> a = std::make_shared <op_assert> (u, std::move (p));
  reslog log;
  drive (a, *u, l, in, log, VP_T + 1);
  denot F[VP_T];
  for (unsigned i = 0; i < VP_T; ++i)
    {
      F[i].n = 0;
      if (pp->m_res[i] == pred_result::yes)
        F[i].v[F[i].n++] = in.tok[i];
    }
  check (in, F, log, 2);
}

// ------------------------------------------------------------------ IFELSE: if Sc then St else Se
// condition and arms yield 0..1 results
#define N_IFELSE (NIN * ipow (8, VP_T))
VP_SCENARIOS (c01_ifelse, N_IFELSE)
{
  cfgdec d {k};
  layout l;
  auto u = std::make_shared <U_src> (l);
  inputs in;
  mk_inputs (d, in, *u);
  std::shared_ptr <op_origin> org[3];
  std::shared_ptr <S_map> s[3];
  layout sub[3] = {l, l, l};
  for (unsigned b = 0; b < 3; ++b)
    {
      org[b] = std::make_shared <op_origin> (sub[b]);
      s[b] = std::make_shared <S_map> (sub[b], org[b]);
      s[b]->configure (d, VP_T, 1);
    }
  for (unsigned b = 0; b < 3; ++b)
    for (unsigned i = in.n; i < VP_T; ++i)
      if (s[b]->m_cnt[i] != 0)
        in.valid = false;
  if (!in.valid)
    return;
  l.add_union ({sub[0], sub[1], sub[2]});
  std::shared_ptr <op> x = std::make_shared <op_ifelse> (l, u, org[0], s[0], org[1], s[1], org[2], s[2]);
  reslog log;
  drive (x, *u, l, in, log, VP_T * VP_M + 1);
  denot F[VP_T];
  for (unsigned i = 0; i < VP_T; ++i)
    {
      F[i].n = 0;
      if (s[0]->m_cnt[i] > 0)
        app (F[i], *s[1], i);
      else
        app (F[i], *s[2], i);
    }
  check (in, F, log, 2);
}

// ------------------------------------------------------------------ SUBX keep=1: (input, S)
// result = input stack + the top value of each sub-result
#define N_ONE (NIN * ipow (VP_MAXC + 1, VP_T))
template <bool SCRAMBLE> static inline void
h_subx (uint64_t k)
{
  cfgdec d {k};
  layout l;
  auto u = std::make_shared <U_src> (l);
  inputs in;
  mk_inputs (d, in, *u);
  auto origin = std::make_shared <op_origin> (l);
  auto s = std::make_shared <S_map> (l, origin);
  s->configure (d, VP_T, VP_MAXC);
  s->m_scramble = SCRAMBLE;
  s->m_junk = nd_tok ();
  for (unsigned i = in.n; i < VP_T; ++i)
    if (s->m_cnt[i] != 0)
      in.valid = false;
  if (!in.valid)
    return;
  std::shared_ptr <op> x = std::make_shared <op_subx> (l, u, origin, s, 1);
  // drive by hand: results have depth 3 = [i, tok_i, out]
  scon sc {l};
  x->state_con (sc);
  unsigned got[VP_T];
  for (unsigned i = 0; i < VP_T; ++i)
    got[i] = 0;
  for (unsigned e = 0; e < VP_E; ++e)
    {
      u->feed (sc, in.ep_end[e]);
      bool drained = false;
      for (unsigned p = 0; p < VP_T * VP_M + 1; ++p)
        {
          auto r = x->next (sc);
          if (r == nullptr)
            {
              drained = true;
              break;
            }
          vp_assert (r->size () == 3, "subx: result = input stack plus `keep' values");
          if (r->size () == 3)
            {
              uint64_t i = tok_at (*r, 2);
              vp_assert (i < in.n && epoch_of (in, i) == e, "subx: result derives from an input of this epoch");
              if (i < in.n)
                {
                  vp_assert (tok_at (*r, 1) == in.tok[i], "subx: the caller's stack is intact below the kept value");
                  unsigned kk = got[i]++;
                  vp_assert (kk < s->m_cnt[i], "subx: not more results than the sub-expression yields");
                  if (kk < VP_M)
                    vp_assert (tok_at (*r, 0) == s->m_out[i][kk], "subx: kept value is the sub-result's top, in order");
                }
            }
        }
      vp_assert (drained, "subx: terminates");
    }
  for (unsigned i = 0; i < in.n; ++i)
    vp_assert (got[i] == s->m_cnt[i], "subx: one result per sub-result for every input");
  x->state_des (sc);
}

VP_SCENARIOS (c01_subx, N_ONE) { h_subx<false> (k); }
// the sub-expression also overwrites the slot below its result: the caller's stack must not notice
VP_SCENARIOS (c01_subx_mut, N_ONE) { h_subx<true> (k); }

// ------------------------------------------------------------------ CAPTURE: [S]
VP_SCENARIOS (c01_capture, N_ONE)
{
  cfgdec d {k};
  layout l;
  auto u = std::make_shared <U_src> (l);
  inputs in;
  mk_inputs (d, in, *u);
  auto origin = std::make_shared <op_origin> (l);
  auto s = std::make_shared <S_map> (l, origin);
  s->configure (d, VP_T, VP_MAXC);
  for (unsigned i = in.n; i < VP_T; ++i)
    if (s->m_cnt[i] != 0)
      in.valid = false;
  if (!in.valid)
    return;
  std::shared_ptr <op> x = std::make_shared <op_capture> (u, origin, s);
  scon sc {l};
  x->state_con (sc);
  unsigned seen = 0;
  for (unsigned e = 0; e < VP_E; ++e)
    {
      u->feed (sc, in.ep_end[e]);
      bool drained = false;
      for (unsigned p = 0; p < VP_T + 1; ++p)
        {
          auto r = x->next (sc);
          if (r == nullptr)
            {
              drained = true;
              break;
            }
          vp_assert (r->size () == 3, "capture: exactly one value is added");
          if (r->size () == 3)
            {
              uint64_t i = tok_at (*r, 2);
              vp_assert (i == seen, "capture: exactly one result per input, in input order");
              vp_assert (i < in.n && epoch_of (in, i) == e, "capture: result derives from an input of this epoch");
              if (i < in.n)
                {
                  vp_assert (tok_at (*r, 1) == in.tok[i], "capture: the stack below the sequence is intact");
                  auto seq = value::as <value_seq> (&r->get (0));
                  vp_assert (seq != nullptr, "capture: top is a sequence");
                  if (seq != nullptr)
                    {
                      auto const &vv = *seq->get_seq ();
                      vp_assert (vv.size () == s->m_cnt[i], "capture: sequence length = number of sub-results");
                      for (unsigned kk = 0; kk < VP_M; ++kk)
                        if (kk < vv.size ())
                          vp_assert (static_cast <value_tok const &> (*vv[kk]).m_tok == s->m_out[i][kk],
                                     "capture: sequence keeps the order of the sub-results");
                    }
                }
              ++seen;
            }
        }
      vp_assert (drained, "capture: terminates");
      vp_assert (seen == in.ep_end[e], "capture: every input of the epoch produced its sequence");
    }
  x->state_des (sc);
}

// ------------------------------------------------------------------ nesting: ALT inside an OR branch
// ((S0, S1) || S2), counts 0..1
#define N_THREE (NIN * ipow (8, VP_T))
VP_SCENARIOS (c01_alt_in_or, N_THREE)
{
  cfgdec d {k};
  layout l;
  auto u = std::make_shared <U_src> (l);
  inputs in;
  mk_inputs (d, in, *u);
  auto o = std::make_shared <op_or> (l, u);
  auto origin0 = std::make_shared <op_origin> (l);
  auto merge = std::make_shared <op_merge> (l, origin0);
  std::shared_ptr <S_map> s[3];
  for (unsigned b = 0; b < 2; ++b)
    {
      auto tine = std::make_shared <op_tine> (*merge, b);
      s[b] = std::make_shared <S_map> (l, tine);
      s[b]->configure (d, VP_T, 1);
      merge->add_branch (s[b]);
    }
  o->add_branch (origin0, merge);
  auto origin1 = std::make_shared <op_origin> (l);
  s[2] = std::make_shared <S_map> (l, origin1);
  s[2]->configure (d, VP_T, 1);
  o->add_branch (origin1, s[2]);
  for (unsigned b = 0; b < 3; ++b)
    for (unsigned i = in.n; i < VP_T; ++i)
      if (s[b]->m_cnt[i] != 0)
        in.valid = false;
  if (!in.valid)
    return;
  reslog log;
  drive (o, *u, l, in, log, VP_T * 2 + 1);
  denot F[VP_T];
  for (unsigned i = 0; i < VP_T; ++i)
    {
      F[i].n = 0;
      app (F[i], *s[0], i);
      app (F[i], *s[1], i);
      if (F[i].n == 0)
        app (F[i], *s[2], i);
    }
  check (in, F, log, 2);
}

// ------------------------------------------------------------------ nesting: ALT inside an ALT branch
// (S0, (S1, S2))   -- the nested merge is re-fed through the outer tine
VP_SCENARIOS (c01_alt_in_alt, N_THREE)
{
  cfgdec d {k};
  layout l;
  auto u = std::make_shared <U_src> (l);
  inputs in;
  mk_inputs (d, in, *u);
  auto outer = std::make_shared <op_merge> (l, u);
  std::shared_ptr <S_map> s[3];
  {
    auto tine = std::make_shared <op_tine> (*outer, 0);
    s[0] = std::make_shared <S_map> (l, tine);
    s[0]->configure (d, VP_T, 1);
    outer->add_branch (s[0]);
  }
  {
    auto tine = std::make_shared <op_tine> (*outer, 1);
    auto inner = std::make_shared <op_merge> (l, tine);
    for (unsigned b = 0; b < 2; ++b)
      {
        auto itine = std::make_shared <op_tine> (*inner, b);
        s[1 + b] = std::make_shared <S_map> (l, itine);
        s[1 + b]->configure (d, VP_T, 1);
        inner->add_branch (s[1 + b]);
      }
    outer->add_branch (inner);
  }
  for (unsigned b = 0; b < 3; ++b)
    for (unsigned i = in.n; i < VP_T; ++i)
      if (s[b]->m_cnt[i] != 0)
        in.valid = false;
  if (!in.valid)
    return;
  reslog log;
  drive (outer, *u, l, in, log, VP_T * 3 + 1);
  denot F[VP_T];
  for (unsigned i = 0; i < VP_T; ++i)
    {
      F[i].n = 0;
      app (F[i], *s[0], i);
      app (F[i], *s[1], i);
      app (F[i], *s[2], i);
    }
  check (in, F, log, 2);
}

// ------------------------------------------------------------------ C13: abandonment
// the same operator graphs, but the result set is abandoned after a pulls (a = 0..4) and torn
// down; CBMC's memory checks and --memory-leak-check decide (no assertion of the denotation)
#define C13_PULLS 5
#define ABANDON(name, base, N)                                          \
  VP_SCENARIOS (name, (N) * C13_PULLS)                                  \
  {                                                                     \
    g_abandon = (int) (k % C13_PULLS);                                  \
    base##__run (k / C13_PULLS);                                        \
    g_abandon = -1;                                                     \
  }
ABANDON (c13_alt2, c01_alt2, N_ALT2)
ABANDON (c13_or2, c01_or2, N_ALT2)
ABANDON (c13_ifelse, c01_ifelse, N_IFELSE)
ABANDON (c13_alt_in_alt, c01_alt_in_alt, N_THREE)
