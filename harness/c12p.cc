// C12 (kernel, "the same query text compiled twice") -- what the parser builds for one occurrence of a construct
// does not depend on what it built before in the same process.  Encoded: append_drop_below (parser.yy: the tree for
// a bracket preceded by N back quotes, `[...]), tree / tree_cr value semantics, simple_exec_builtin::build_exec
// (builtin.hh), op_drop_below::next (op.cc), stack::pop/drop/push.
// The generated parser is compiled INTO this translation unit so that the function in parser.yy's anonymous
// namespace can be called directly.
#include "parser.cc"          // bison output of /repo/libzwerg/parser.yy, regenerated at check time
#define VP_OPS_IMPL
#include "ops.hh"

// yields one stack of DEPTH tokens [t0 .. t(DEPTH-1)], TOS last
struct D_src : public op
{
  struct state { bool m_done; };
  layout::loc m_ll;
  unsigned m_depth;
  uint64_t m_tok[6];
  explicit D_src (layout &l) : m_ll {l.reserve <state> ()}, m_depth {0} {}
  std::string name () const override { return "D"; }
  void state_con (scon &sc) const override { sc.con <state> (m_ll); sc.get <state> (m_ll).m_done = false; }
  void state_des (scon &sc) const override { sc.des <state> (m_ll); }
  stack::uptr next (scon &sc) const override
  {
    state &st = sc.get <state> (m_ll);
    if (st.m_done)
      return nullptr;
    st.m_done = true;
    auto r = std::make_unique <stack> ();
    for (unsigned i = 0; i < 6; ++i)
      if (i < m_depth)
        r->push (std::make_unique <value_tok> (m_tok[i], 0));
    return r;
  }
};

// run the builtin that append_drop_below put into T on a stack of 5 tokens; DROP is what this occurrence asked for
static inline void
run_drop (tree const &t, unsigned drop)
{
  vp_assert (t.m_children.size () == 2, "append_drop_below: CAT of the bracket and the drop");
  if (t.m_children.size () != 2)
    return;
  tree const &b = t.m_children[1];
  vp_assert (b.m_builtin != nullptr, "second child is a builtin");
  if (b.m_builtin == nullptr)
    return;
  layout l;
  auto src = std::make_shared <D_src> (l);
  src->m_depth = 5;
  for (unsigned i = 0; i < 6; ++i)
    src->m_tok[i] = nd_tok ();
  auto x = b.m_builtin->build_exec (l, src);
  vp_assert (x != nullptr, "the drop builds an operator");
  if (x == nullptr)
    return;
  scon sc {l};
  x->state_con (sc);
  auto r = x->next (sc);
  vp_assert (r != nullptr, "one result");
  if (r != nullptr)
    {
      vp_assert (r->size () == 5 - drop, "exactly as many values are dropped below TOS as THIS occurrence has back quotes");
      if (r->size () == 5 - drop)
        {
          vp_assert (tok_at (*r, 0) == src->m_tok[4], "TOS is kept");
          for (unsigned i = 1; i < 5; ++i)
            if (i < r->size ())
              vp_assert (tok_at (*r, i) == src->m_tok[4 - drop - i], "what lies deeper is kept in order");
        }
    }
  auto e = x->next (sc);
  vp_assert (e == nullptr, "no second result");
  x->state_des (sc);
}

VP_HARNESS (c12_compile_twice_drop)
{
  // scenario = (back quotes of the first occurrence 1..3) x (of the second 1..3)
  uint64_t lo = vp_range_lo (), hi = vp_range_hi ();
  if (hi > 9) hi = 9;
  uint64_t scen = vp_nondet_u64 ();
  vp_assume (scen >= lo && scen < hi);
  for (uint64_t s = lo; s < hi; ++s)
    if (scen == s)
      {
        unsigned d1 = s % 3 + 1, d2 = s / 3 + 1;
        auto t1 = append_drop_below (tree::create_nullary <tree_type::EMPTY_LIST> (), d1);
        auto t2 = append_drop_below (tree::create_nullary <tree_type::EMPTY_LIST> (), d2);
        run_drop (*t1, d1);
        run_drop (*t2, d2);
      }
}
