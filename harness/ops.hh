// Protocol stubs for operator harnesses (DESIGN 5.5).  All of them derive from the
// repository's real op / inner_op / pred classes, keep their run-time state in the
// real state area (reserved through the real layout, constructed through
// scon::con/des) and are therefore driven by the code under test through its real
// virtual interface.
#ifndef VP_OPS_HH
#define VP_OPS_HH
#include "vp.h"
#include <cassert>
#include <memory>
#include <vector>
#include "op.hh"
#include "stack.hh"
#include "value.hh"
#include "scon.hh"
#include "layout.hh"

#ifndef VP_D
#define VP_D 3          // token alphabet {0..VP_D-1}
#endif
#ifndef VP_M
#define VP_M 2          // max results per input of a mapping stub
#endif

// ---- token value: the only value type in operator harnesses
struct value_tok : public value
{
  static value_type const vtype;
  uint64_t m_tok;
  value_tok (uint64_t t, size_t pos) : value {vtype, pos}, m_tok {t} {}
  value_tok (value_tok const &that) = default;
  void show (std::ostream &o) const override {}
  std::unique_ptr <value> clone () const override { return std::make_unique <value_tok> (*this); }
  cmp_result cmp (value const &that) const override
  {
    if (auto v = value::as <value_tok> (&that))
      return compare (m_tok, v->m_tok);
    return cmp_result::fail;
  }
};
#ifdef VP_OPS_IMPL
value_type const value_tok::vtype = value_type::alloc ("T_TOK");
#endif

static inline uint64_t
tok_at (stack const &s, unsigned depth)
{
  return static_cast <value_tok const &> (s.get (depth)).m_tok;
}

static inline uint64_t
nd_tok ()
{
  uint64_t t = vp_nondet_u8 ();
  vp_assume (t < VP_D);
  return t;
}

// ---- epoch source: the upstream of the operator under test.
// Protocol (what a real upstream chain hanging off a re-fed origin does): inside one
// epoch it yields its stacks one by one and then answers nullptr, persistently, until
// the driver starts the next epoch -- which a real driver (op_or, op_subx, stringer_op,
// op_tr_closure feeding a sub-chain) does only after the consumer itself answered
// nullptr.  Each stack is [below..., tok] with `below' a fixed marker slot when DEPTH 2.
struct U_src : public op
{
  struct state { unsigned m_idx; unsigned m_end; };
  layout::loc m_ll;
  unsigned m_n;                 // total stacks
  uint64_t m_tok[6];
  uint64_t m_below[6];
  bool m_two;                   // stacks have two slots

  explicit U_src (layout &l) : m_ll {l.reserve <state> ()}, m_n {0}, m_two {false} {}
  std::string name () const override { return "U"; }
  void state_con (scon &sc) const override { sc.con <state> (m_ll); state &st = sc.get <state> (m_ll); st.m_idx = 0; st.m_end = 0; }
  void state_des (scon &sc) const override { sc.des <state> (m_ll); }
  // driver side: allow the stacks [idx, end) to be yielded
  void feed (scon &sc, unsigned end) const { sc.get <state> (m_ll).m_end = end; }
  // driver side: this execution processes the stacks [from, end)
  void seek (scon &sc, unsigned from, unsigned end) const { state &st = sc.get <state> (m_ll); st.m_idx = from; st.m_end = end; }
  stack::uptr next (scon &sc) const override
  {
    state &st = sc.get <state> (m_ll);
    if (st.m_idx >= st.m_end)
      return nullptr;
    unsigned i = st.m_idx++;
    auto r = std::make_unique <stack> ();
    if (m_two)
      r->push (std::make_unique <value_tok> (m_below[i], 0));
    r->push (std::make_unique <value_tok> (m_tok[i], 0));
    return r;
  }
};

// ---- scenario decoding.  Control-relevant choices of a harness (how many inputs, how
// they are split into re-feed epochs, how many results each sub-expression yields for
// each input, predicate outcomes) are digits of a mixed-radix scenario number.  The
// scenario number itself is a SYMBOLIC value chosen by the solver; the harness body is
// `for (k = 0; k < N; ++k) if (scenario == k) run (k);' so that inside run(k) all
// control flow is concrete (CBMC then keeps every heap pointer concrete -- with merged
// control flow its symbolic execution of this C++ heap code does not terminate, see
// DESIGN 2.5) while payload tokens stay symbolic.
struct cfgdec
{
  uint64_t k;
  explicit cfgdec (uint64_t kk) : k {kk} {}
  unsigned take (unsigned radix) { unsigned r = k % radix; k /= radix; return r; }
};

// ---- mapping stub: for the input stack whose id slot (depth 1) is i it yields
// m_cnt[i] <= VP_M results [.., out[i][k]] (pos = k).  Counts are scenario digits
// (concrete inside a scenario), output tokens are symbolic.
struct S_map : public inner_op
{
  struct state { stack::uptr m_cur; unsigned m_k; };
  layout::loc m_ll;
  unsigned m_cnt[6];
  uint64_t m_out[6][VP_M];
  bool m_keep;            // the id slot is TOS and stays: results are [.., id, out] (inputs of depth 1)
  bool m_scramble;        // also overwrite the slot below the result (a sub-expression that rearranges its copy of the stack)
  uint64_t m_junk;

  S_map (layout &l, std::shared_ptr <op> upstream) : inner_op {upstream}, m_ll {l.reserve <state> ()}, m_keep {false}, m_scramble {false}, m_junk {0} {}
  void configure (cfgdec &d, unsigned ninputs, unsigned maxcnt)
  {
    for (unsigned i = 0; i < 6; ++i)
      {
        m_cnt[i] = i < ninputs ? d.take (maxcnt + 1) : 0;
        for (unsigned k = 0; k < VP_M; ++k)
          m_out[i][k] = nd_tok ();
      }
  }
  std::string name () const override { return "S"; }
  void state_con (scon &sc) const override { sc.con <state> (m_ll); sc.get <state> (m_ll).m_k = 0; inner_op::state_con (sc); }
  void state_des (scon &sc) const override { inner_op::state_des (sc); sc.des <state> (m_ll); }
  stack::uptr next (scon &sc) const override
  {
    state &st = sc.get <state> (m_ll);
    for (unsigned guard = 0; guard < 8; ++guard)
      {
        if (st.m_cur == nullptr)
          {
            st.m_cur = m_upstream->next (sc);
            if (st.m_cur == nullptr)
              return nullptr;
            st.m_k = 0;
          }
        uint64_t id = tok_at (*st.m_cur, m_keep ? 0 : 1);
        if (st.m_k < m_cnt[id])
          {
            auto r = std::make_unique <stack> (*st.m_cur);
            if (!m_keep)
              r->pop ();
            if (m_scramble)
              r->push (std::make_unique <value_tok> (m_junk, 7));
            r->push (std::make_unique <value_tok> (m_out[id][st.m_k], st.m_k));
            st.m_k++;
            return r;
          }
        st.m_cur = nullptr;
      }
    vp_assert (false, "S_map: more than 8 upstream pulls in one next()");
    return nullptr;
  }
};

// ---- predicate whose outcome for input id i is a scenario digit
struct P_sym : public pred
{
  pred_result m_res[6];
  void configure (cfgdec &d, unsigned ninputs)
  {
    for (unsigned i = 0; i < 6; ++i)
      {
        unsigned r = i < ninputs ? d.take (3) : 0;
        m_res[i] = r == 0 ? pred_result::no : r == 1 ? pred_result::yes : pred_result::fail;
      }
  }
  pred_result result (scon &sc, stack &stk) const override { return m_res[tok_at (stk, 1)]; }
  std::string name () const override { return "P"; }
};

// ---- result log
struct reslog
{
  unsigned n;
  uint64_t top[16];
  uint64_t below[16];
  uint64_t third[16];
  uint64_t fourth[16];
  unsigned depth[16];
  unsigned epoch[16];
  size_t pos[16];
  reslog () : n {0} {}
  void add (stack const &s, unsigned ep)
  {
    vp_assert (n < 16, "result log overflow (bound)");
    if (n < 16)
      {
        depth[n] = s.size ();
        top[n] = s.size () > 0 ? tok_at (s, 0) : 99;
        below[n] = s.size () > 1 ? tok_at (s, 1) : 99;
        third[n] = s.size () > 2 ? tok_at (s, 2) : 99;
        fourth[n] = s.size () > 3 ? tok_at (s, 3) : 99;
        pos[n] = s.size () > 0 ? s.get (0).get_pos () : 99;
        epoch[n] = ep;
        ++n;
      }
  }
};

#endif
