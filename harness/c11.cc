// C11 (kernel) -- word behaviour depends only on the values near the top of the stack: the
// cached type profile that overload selection reads is kept consistent by push/pop/drop at
// every depth, and selector matching reads exactly the top k type codes.
// Encoded: stack::push/pop/drop/get/size/profile (stack.hh), selector ctor templates,
// compute_mask/compute_imprint/unshift, selector(stack const&), selector::matches.
// Symbolic: the type code of every slot (1..127), the selector's type codes (0 = any).
// Concrete per harness: the stack depth (0..6) and the operation; drop's count is a symbolic
// scenario digit.
#include "vp.h"
#include <cassert>
#include <memory>
#include "stack.hh"
#include "selector.hh"

struct value_any : public value
{
  value_any (uint8_t code, size_t pos) : value {value_type {code}, pos} {}
  value_any (value_any const &that) = default;
  void show (std::ostream &o) const override {}
  std::unique_ptr <value> clone () const override { return std::make_unique <value_any> (*this); }
  cmp_result cmp (value const &that) const override { return cmp_result::fail; }
};

static inline uint8_t
nd_code ()
{
  uint8_t c = vp_nondet_u8 ();
  vp_assume (c >= 1 && c <= 127);
  return c;
}

// model: codes[0] is the bottom
struct model { uint8_t code[8]; unsigned n; };

static inline void
build (stack &s, model &m, unsigned depth)
{
  m.n = depth;
  for (unsigned i = 0; i < depth; ++i)
    {
      m.code[i] = nd_code ();
      s.push (std::make_unique <value_any> (m.code[i], 0));
    }
}

static inline selector::sel_t
expected_profile (model const &m)
{
  selector::sel_t p = 0;
  for (unsigned d = 0; d < selector::W && d < m.n; ++d)
    p |= ((selector::sel_t) m.code[m.n - 1 - d]) << (8 * d);
  return p;
}

static inline void
check (stack const &s, model const &m)
{
  vp_assert (s.size () == m.n, "depth as the list model says");
  vp_assert (s.profile () == expected_profile (m), "profile byte d = type code of the slot at depth d, for d < min (4, depth), else 0");
  for (unsigned d = 0; d < m.n; ++d)
    vp_assert (s.get (d).get_type ().code () == m.code[m.n - 1 - d], "slots are as the list model says");
}

template <unsigned N> static inline void
h_push ()
{
  stack s; model m;
  build (s, m, N);
  check (s, m);
  uint8_t c = nd_code ();
  s.push (std::make_unique <value_any> (c, 0));
  m.code[m.n++] = c;
  check (s, m);
}

template <unsigned N> static inline void
h_pop ()
{
  stack s; model m;
  build (s, m, N);
  auto v = s.pop ();
  vp_assert (v->get_type ().code () == m.code[m.n - 1], "pop returns the top value");
  m.n--;
  check (s, m);
}

template <unsigned N> static inline void
h_drop ()
{
  stack s; model m;
  build (s, m, N);
  unsigned kk = vp_nondet_u8 ();
  vp_assume (kk <= N);
  for (unsigned k = 0; k <= N; ++k)
    if (kk == k)
      {
        s.drop (k);
        m.n -= k;
        check (s, m);
      }
}

// selector of K types (deepest first, as the overload tables write them) against a stack of depth N
template <unsigned N> static inline void
h_select ()
{
  stack s; model m;
  build (s, m, N);
  selector prof {s};
  uint8_t c1 = vp_nondet_u8 (), c2 = vp_nondet_u8 (), c3 = vp_nondet_u8 (), c4 = vp_nondet_u8 ();
  vp_assume (c1 <= 127 && c2 <= 127 && c3 <= 127 && c4 <= 127);
  auto top = [&] (unsigned d) -> uint8_t { return d < m.n ? m.code[m.n - 1 - d] : 0; };
  auto fits = [&] (uint8_t want, unsigned d) { return want == 0 || want == top (d); };
  selector s1 {value_type {c1}};
  vp_assert (s1.matches (prof) == fits (c1, 0), "1-type selector looks at the top slot only");
  selector s2 {value_type {c1}, value_type {c2}};
  vp_assert (s2.matches (prof) == (fits (c2, 0) && fits (c1, 1)), "2-type selector looks at the top two slots");
  selector s3 {value_type {c1}, value_type {c2}, value_type {c3}};
  vp_assert (s3.matches (prof) == (fits (c3, 0) && fits (c2, 1) && fits (c1, 2)), "3-type selector looks at the top three slots");
  selector s4 {value_type {c1}, value_type {c2}, value_type {c3}, value_type {c4}};
  vp_assert (s4.matches (prof) == (fits (c4, 0) && fits (c3, 1) && fits (c2, 2) && fits (c1, 3)), "4-type selector looks at the top four slots");
}

#define INST(OP, N) VP_HARNESS (c11_##OP##_d##N) { h_##OP<N> (); }
INST (push, 0) INST (push, 1) INST (push, 2) INST (push, 3) INST (push, 4) INST (push, 5)
INST (pop, 1) INST (pop, 2) INST (pop, 3) INST (pop, 4) INST (pop, 5) INST (pop, 6)
INST (drop, 0) INST (drop, 1) INST (drop, 2) INST (drop, 3) INST (drop, 4) INST (drop, 5) INST (drop, 6)
INST (select, 0) INST (select, 1) INST (select, 2) INST (select, 3) INST (select, 4) INST (select, 5) INST (select, 6)
