// C13 (kernel) -- a sub-expression context destroys the state it constructed exactly once, also
// when the sub-expression fails at run time: pred_subx_any::result / scon_guard (op.cc, scon.cc)
// around a sub-chain whose operator throws after having stored heap-owning state.
#define VP_OPS_IMPL
#include "ops.hh"

static int g_con, g_des;

// pulls one stack into its state (which then owns heap memory) and then fails
struct S_throw : public inner_op
{
  struct state { stack::uptr m_cur; };
  layout::loc m_ll;
  bool m_fail;
  S_throw (layout &l, std::shared_ptr <op> upstream, bool fail) : inner_op {upstream}, m_ll {l.reserve <state> ()}, m_fail {fail} {}
  std::string name () const override { return "T"; }
  void state_con (scon &sc) const override { ++g_con; sc.con <state> (m_ll); inner_op::state_con (sc); }
  void state_des (scon &sc) const override { inner_op::state_des (sc); sc.des <state> (m_ll); ++g_des; }
  stack::uptr next (scon &sc) const override
  {
    state &st = sc.get <state> (m_ll);
    st.m_cur = m_upstream->next (sc);
    if (st.m_cur == nullptr)
      return nullptr;
    if (m_fail)
      throw std::runtime_error ("stack overflow");
    return std::make_unique <stack> (*st.m_cur);
  }
};

template <bool FAIL> static inline void
h_guard ()
{
  g_con = g_des = 0;
  layout l;
  auto origin = std::make_shared <op_origin> (l);
  auto t = std::make_shared <S_throw> (l, origin, FAIL);
  pred_subx_any p {t, origin};
  scon sc {l};
  stack stk;
  stk.push (std::make_unique <value_tok> (nd_tok (), 0));
  stk.push (std::make_unique <value_tok> (nd_tok (), 0));
  bool threw = false;
  pred_result r = pred_result::no;
  try { r = p.result (sc, stk); } catch (std::runtime_error &) { threw = true; }
  vp_assert (threw == FAIL, "the failure of the sub-expression surfaces as the exception");
  if (!FAIL)
    vp_assert (r == pred_result::yes, "sub-expression yielded");
  vp_assert (g_con == 1 && g_des == 1, "the nested state is constructed once and destroyed exactly once, also when unwinding");
  vp_assert (stk.size () == 2, "the caller's stack is intact");
}

VP_HARNESS (c13_guard_ok) { h_guard <false> (); }
VP_HARNESS (c13_guard_throw) { h_guard <true> (); }
