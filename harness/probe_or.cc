#define VP_OPS_IMPL
#include "ops.hh"
struct S3 : public inner_op
{
  struct state { stack::uptr m_cur; unsigned m_k; };
  layout::loc m_ll;
  unsigned m_cnt[6];
  uint64_t m_out[6][VP_M];
  S3 (layout &l, std::shared_ptr <op> upstream) : inner_op {upstream}, m_ll {l.reserve <state> ()} {}
  std::string name () const override { return "S"; }
  void state_con (scon &sc) const override { sc.con <state> (m_ll); sc.get <state> (m_ll).m_k = 0; inner_op::state_con (sc); }
  void state_des (scon &sc) const override { inner_op::state_des (sc); sc.des <state> (m_ll); }
  stack::uptr next (scon &sc) const override
  {
    state &st = sc.get <state> (m_ll);
#if VAR == 1
    // no state pointer: pull and forward
    return m_upstream->next (sc);
#elif VAR == 2
    st.m_cur = m_upstream->next (sc);
    if (st.m_cur == nullptr) return nullptr;
    return std::make_unique <stack> (*st.m_cur);
#elif VAR == 3
    st.m_cur = m_upstream->next (sc);
    if (st.m_cur == nullptr) return nullptr;
    uint64_t id = tok_at (*st.m_cur, 1);
    vp_assert (id < 2, "id");
    return std::make_unique <stack> (*st.m_cur);
#elif VAR == 4
    st.m_cur = m_upstream->next (sc);
    if (st.m_cur == nullptr) return nullptr;
    uint64_t id = tok_at (*st.m_cur, 1);
    if (st.m_k < m_cnt[id]) { st.m_k++; return std::make_unique <stack> (*st.m_cur); }
    return nullptr;
#elif VAR == 5
    if (st.m_cur == nullptr)
      {
        st.m_cur = m_upstream->next (sc);
        if (st.m_cur == nullptr)
          return nullptr;
        st.m_k = 0;
      }
    uint64_t id = tok_at (*st.m_cur, 1);
    if (st.m_k < m_cnt[id])
      {
        auto r = std::make_unique <stack> (*st.m_cur);
        r->pop ();
        r->push (std::make_unique <value_tok> (m_out[id][st.m_k], st.m_k));
        st.m_k++;
        return r;
      }
    st.m_cur = nullptr;
    return nullptr;
#elif VAR == 6
    for (unsigned guard = 0; guard < 3; ++guard)
      {
        if (st.m_cur == nullptr)
          {
            st.m_cur = m_upstream->next (sc);
            if (st.m_cur == nullptr)
              return nullptr;
            st.m_k = 0;
          }
        uint64_t id = tok_at (*st.m_cur, 1);
        if (st.m_k < m_cnt[id])
          {
            auto r = std::make_unique <stack> (*st.m_cur);
            st.m_k++;
            return r;
          }
        st.m_cur = nullptr;
      }
    return nullptr;
#endif
  }
};
VP_HARNESS (probe_or)
{
  layout l;
  auto u = std::make_shared <U_src> (l);
  u->m_n = 2; u->m_two = true;
  u->m_tok[0] = nd_tok (); u->m_tok[1] = nd_tok (); u->m_below[0] = 0; u->m_below[1] = 1;
  auto s = std::make_shared <S3> (l, u);
  s->m_cnt[0] = 1; s->m_cnt[1] = 2;
  std::shared_ptr <op> x = s;
  scon sc {l};
  x->state_con (sc);
  u->feed (sc, 2);
  s->m_out[0][0] = nd_tok (); s->m_out[0][1] = nd_tok (); s->m_out[1][0] = nd_tok (); s->m_out[1][1] = nd_tok ();
  auto r = x->next (sc);
  vp_assert (r != nullptr, "first");
  auto r2 = x->next (sc);
  vp_assert (r2 != nullptr, "second");
  x->state_des (sc);
}
