#define VP_OPS_IMPL
#include "ops.hh"
VP_HARNESS (probe_or)
{
  layout l;
  auto u = std::make_shared <U_src> (l);
  auto o = std::make_shared <op_or> (l, u);
  std::shared_ptr <S_map> s[2];
  for (unsigned b = 0; b < 2; ++b)
    {
      auto origin = std::make_shared <op_origin> (l);
      s[b] = std::make_shared <S_map> (l, origin);
#if 1
      s[b]->randomize ();
#endif
      o->add_branch (origin, s[b]);
    }
  scon sc {l};
  std::shared_ptr <op> x = o;
  x->state_con (sc);
  x->state_des (sc);
}
