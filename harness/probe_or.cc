#define VP_OPS_IMPL
#include "ops.hh"
struct S3 : public inner_op
{
  struct state { stack::uptr m_cur; unsigned m_k; };
  layout::loc m_ll;
  unsigned m_cnt[VP_D];
  uint64_t m_out[VP_D][VP_M];
  S3 (layout &l, std::shared_ptr <op> upstream) : inner_op {upstream}, m_ll {l.reserve <state> ()} {}
  std::string name () const override { return "S"; }
  void state_con (scon &sc) const override { sc.con <state> (m_ll); sc.get <state> (m_ll).m_k = 0; inner_op::state_con (sc); }
  void state_des (scon &sc) const override { inner_op::state_des (sc); sc.des <state> (m_ll); }
  stack::uptr next (scon &sc) const override
  {
    state &st = sc.get <state> (m_ll);
    for (unsigned guard = 0; guard < LOOPN; ++guard)
      {
        if (st.m_cur == nullptr)
          {
            st.m_cur = m_upstream->next (sc);
            if (st.m_cur == nullptr)
              return nullptr;
            st.m_k = 0;
          }
        uint64_t t = tok_at (*st.m_cur, 0);
        if (st.m_k < m_cnt[t])
          {
            auto r = std::make_unique <stack> (*st.m_cur);
#if POP
            r->pop ();
            r->push (std::make_unique <value_tok> (m_out[t][st.m_k], st.m_k));
#endif
            st.m_k++;
            return r;
          }
        st.m_cur = nullptr;
      }
    return nullptr;
  }
};
VP_HARNESS (probe_or)
{
  layout l;
  auto u = std::make_shared <U_src> (l);
  u->m_n = 2; u->m_two = true;
  u->m_tok[0] = nd_tok (); u->m_tok[1] = nd_tok (); u->m_below[0] = 0; u->m_below[1] = 1;
  auto s = std::make_shared <S3> (l, u);
  for (unsigned t = 0; t < VP_D; ++t) { unsigned c = vp_nondet_u8 (); vp_assume (c <= 2); s->m_cnt[t] = c; s->m_out[t][0] = nd_tok (); s->m_out[t][1] = nd_tok (); }
  std::shared_ptr <op> x = s;
  scon sc {l};
  x->state_con (sc);
  unsigned end = vp_nondet_u8 ();
  vp_assume (end <= 2);
  u->feed (sc, end);
  unsigned n = 0;
  for (unsigned p = 0; p < NP; ++p)
    {
      auto r = x->next (sc);
      if (r == nullptr)
        break;
      vp_assert (r->size () == 2, "size");
      ++n;
    }
  x->state_des (sc);
}
