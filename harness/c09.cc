// C09 -- comparison is one consistent total order (constants kernel).
// Encoded: constant::operator<,>,<=,>=,==,!= (constant.cc), mpz_class comparisons (int.cc),
// the real domain objects: dec, hex, oct, bin, bool, line, column (constant.cc) and the
// ELF symbol domains STT/STB for EM_NONE, ARM, SPARC, MIPS, PARISC and STV
// (value-symbol.cc) with their real safe_arith / most_enclosing.
// Symbolic: three constants (64-bit payload x signedness x domain index).
// The relative address order of the domain objects is the one of the native build
// (handed in as ranks), so a counterexample replays on the real code.
#include "vp.h"
#include <cassert>
#include <elf.h>
#include "constant.hh"
// from value-symbol.hh (that header pulls in value-dw.hh, which does not compile under -fno-access-control)
constant_dom const &elfsym_stt_dom (int machine);
constant_dom const &elfsym_stb_dom (int machine);
constant_dom const &elfsym_stv_dom ();

#define NDOM 17
static inline constant_dom const *
pick_dom (unsigned i)
{
  switch (i)
    {
    case 0: return &dec_constant_dom;
    case 1: return &hex_constant_dom;
    case 2: return &oct_constant_dom;
    case 3: return &bin_constant_dom;
    case 4: return &bool_constant_dom;
    case 5: return &line_number_dom;
    case 6: return &column_number_dom;
    case 7: return &elfsym_stt_dom (EM_NONE);
    case 8: return &elfsym_stt_dom (EM_ARM);
    case 9: return &elfsym_stt_dom (EM_SPARC);
    case 10: return &elfsym_stt_dom (EM_MIPS);
    case 11: return &elfsym_stt_dom (EM_PARISC);
    case 12: return &elfsym_stb_dom (EM_NONE);
    case 13: return &elfsym_stb_dom (EM_MIPS);
    case 14: return &elfsym_stb_dom (EM_PARISC);
    case 15: return &elfsym_stv_dom ();
    default: return nullptr;          // constants without a domain
    }
}

extern "C" void vp_rank_register (void const *p, uint64_t rank);
extern "C" uint64_t vp_native_rank (unsigned i);

static inline void
register_layout ()
{
  for (unsigned i = 0; i < NDOM - 1; ++i)
    vp_rank_register (pick_dom (i), vp_native_rank (i));
}

static inline constant
nd_constant (unsigned &di)
{
  uint64_t u = vp_nondet_u64 ();
  bool s = vp_nondet_bool ();
  di = vp_nondet_u8 ();
  vp_assume (di < NDOM);
  return constant (mpz_class (u, s ? signedness::sign : signedness::unsign), pick_dom (di));
}

typedef __int128 i128;
static inline i128 den (constant const &c)
{
  mpz_class v = c.value ();
  return v.m_sign == signedness::sign ? (i128) v.m_i : (i128) v.m_u;
}

// prints the address order of the pool (native build only; the driver feeds it back)
VP_HARNESS (c09_layout)
{
  for (unsigned i = 0; i < NDOM - 1; ++i)
    {
      unsigned rank = 0;
      for (unsigned j = 0; j < NDOM - 1; ++j)
        if ((uintptr_t) pick_dom (j) < (uintptr_t) pick_dom (i))
          ++rank;
      vp_observe (rank);
    }
}

VP_HARNESS (c09_pair)
{
  register_layout ();
  unsigned da, db;
  constant a = nd_constant (da), b = nd_constant (db);
  bool lt = a < b, gt = a > b, le = a <= b, ge = a >= b, eq = a == b, ne = a != b;
  bool blt = b < a;
  vp_assert (!(lt && blt), "A < B and B < A never both hold");
  vp_assert (gt == blt, "A > B iff B < A");
  vp_assert ((int) lt + (int) eq + (int) gt == 1, "exactly one of <, ==, > holds");
  vp_assert (le == (lt || eq) && ge == (gt || eq) && ne == !eq, "<=, >=, != agree with <, ==, >");
  vp_assert ((b == a) == eq, "== is symmetric");
  constant a2 = a;
  vp_assert (a == a2 && !(a < a2) && !(a2 < a), "a value equals its own copy (reflexive)");
  constant_dom const *d1 = a.dom (), *d2 = b.dom ();
  if (d1 != nullptr && d2 != nullptr)
    {
      if (d1->safe_arith () && d2->safe_arith ())
        {
          vp_assert (lt == (den (a) < den (b)), "arithmetic domains compare by value (<)");
          vp_assert (eq == (den (a) == den (b)), "arithmetic domains compare by value (==)");
        }
      else if (d1 != d2 && d1->most_enclosing (a.value ()) != d2->most_enclosing (b.value ()))
        vp_assert (!eq, "constants of unrelated named domains are never equal");
      if (d1 == d2)
        vp_assert (lt == (den (a) < den (b)), "same domain: by value");
    }
}

VP_HARNESS (c09_triple)
{
  register_layout ();
  unsigned da, db, dc;
  constant a = nd_constant (da), b = nd_constant (db), c = nd_constant (dc);
  if (a < b && b < c)
    vp_assert (a < c, "< is transitive");
  if (a == b && b == c)
    vp_assert (a == c, "== is transitive");
  if (a == b && b < c)
    vp_assert (a < c, "== is a congruence for < (left)");
  if (a < b && b == c)
    vp_assert (a < c, "== is a congruence for < (right)");
}
