// C04 (kernel) -- an overloaded ?word / !word on a stack that no overload matches reports an
// error, and then NEITHER ?word NOR !word holds.
// Encoded: overload_tab::add_overload/instantiate, overload_instance ctor/find_pred/show_error,
// overload_pred::result (overload.cc), pred_not::result (op.cc), selector matching.
// Symbolic: the predicate's outcome.  Concrete: one overload for type code 5, top of stack of code 5 / 9.
#include "vp.h"
#include <memory>
#include "overload.hh"
#include "stack.hh"

struct value_any : public value
{
  value_any (uint8_t code, size_t pos) : value {value_type {code}, pos} {}
  void show (std::ostream &o) const override {}
  std::unique_ptr <value> clone () const override { return std::make_unique <value_any> (*this); }
  cmp_result cmp (value const &that) const override { return cmp_result::fail; }
};

struct P_fixed : public pred
{
  pred_result m_r;
  explicit P_fixed (pred_result r) : m_r {r} {}
  pred_result result (scon &sc, stack &stk) const override { return m_r; }
  std::string name () const override { return "P"; }
};

static pred_result g_outcome;
struct B_pred : public builtin
{
  std::unique_ptr <pred> build_pred (layout &l) const override { return std::make_unique <P_fixed> (g_outcome); }
  char const *name () const override { return "w"; }
};

struct OP : public overload_pred
{
  using overload_pred::overload_pred;
  std::string name () const override { return "w"; }
};

template <bool MATCH> static inline void
h_overload ()
{
  unsigned r = vp_nondet_u8 ();
  vp_assume (r <= 2);
  g_outcome = r == 0 ? pred_result::no : r == 1 ? pred_result::yes : pred_result::fail;
  // concrete type codes (symbolic ones make overload selection a symbolic branch over shared_ptr
  // values, which CBMC's symbolic execution does not get through, DESIGN 0.2); the outcome of the
  // selected predicate stays symbolic
  uint8_t want = 5, have = MATCH ? 5 : 9;
  layout l;
  overload_tab tab;
  tab.add_overload (selector {value_type {want}}, std::make_shared <B_pred> ());
  auto inst = tab.instantiate (l);
  scon sc {l};
  stack stk;
  stk.push (std::make_unique <value_any> (have, 0));
  OP q {inst};
  pred_result rq = q.result (sc, stk);
  pred_not bang {std::make_unique <OP> (inst)};
  pred_result rb = bang.result (sc, stk);
  bool holds_q = rq == pred_result::yes, holds_bang = rb == pred_result::yes;
  if (MATCH)
    {
      vp_assert (rq == g_outcome, "a matching overload decides");
      if (g_outcome == pred_result::fail)
        vp_assert (!holds_q && !holds_bang, "erroring overload: neither ?word nor !word holds");
      else
        vp_assert (holds_q != holds_bang, "?word holds exactly when !word does not");
    }
  else
    {
      vp_assert (rq == pred_result::fail, "no overload matches: the word reports an error");
      vp_assert (!holds_q && !holds_bang, "no overload matches: neither ?word nor !word holds");
    }
  vp_assert (stk.size () == 1 && stk.get (0).get_type ().code () == have, "the stack is left alone");
}

VP_HARNESS (c04_overload_match) { h_overload <true> (); }
VP_HARNESS (c04_overload_mismatch) { h_overload <false> (); }
