// C04 -- three-valued predicate logic (kernel): `?X' holds exactly when `!X' does not, and
// when X reports an error neither holds.
// Encoded: operator!/&&/|| on pred_result (pred_result.hh), pred_not/pred_and/pred_or::result
// (op.cc), maybe_invert (builtin.cc).
// Symbolic: the outcomes of the operand predicates.
#include "vp.h"
#include <memory>
#include "op.hh"
#include "builtin.hh"

struct P_fixed : public pred
{
  pred_result m_r;
  mutable unsigned m_calls;
  explicit P_fixed (pred_result r) : m_r {r}, m_calls {0} {}
  pred_result result (scon &sc, stack &stk) const override { ++m_calls; return m_r; }
  std::string name () const override { return "P"; }
};

static inline pred_result
nd_result ()
{
  unsigned r = vp_nondet_u8 ();
  vp_assume (r <= 2);
  return r == 0 ? pred_result::no : r == 1 ? pred_result::yes : pred_result::fail;
}

// the predicates under test never look at the state area or the stack themselves
static scon *no_scon = nullptr;
static stack *no_stack = nullptr;

VP_HARNESS (c04_tables)
{
  pred_result a = nd_result (), b = nd_result ();
  vp_assert ((!a == pred_result::fail) == (a == pred_result::fail), "negation keeps `fail'");
  vp_assert ((!a == pred_result::yes) == (a == pred_result::no), "!no = yes");
  vp_assert ((!a == pred_result::no) == (a == pred_result::yes), "!yes = no");
  pred_result c = a && b, d = a || b;
  bool anyfail = a == pred_result::fail || b == pred_result::fail;
  vp_assert ((c == pred_result::fail) == anyfail && (d == pred_result::fail) == anyfail, "&&, || propagate `fail'");
  if (!anyfail)
    {
      vp_assert ((c == pred_result::yes) == (a == pred_result::yes && b == pred_result::yes), "&& is conjunction");
      vp_assert ((d == pred_result::yes) == (a == pred_result::yes || b == pred_result::yes), "|| is disjunction");
    }
}

VP_HARNESS (c04_pred_objects)
{
  pred_result a = nd_result (), b = nd_result ();
  scon &sc = reinterpret_cast <scon &> (*(char *) 64);    // never touched
  stack &stk = reinterpret_cast <stack &> (*(char *) 128);
  pred_not n {std::make_unique <P_fixed> (a)};
  pred_result rn = n.result (sc, stk);
  // ?X yields iff result == yes; !X is pred_not: yields iff !result == yes
  bool q = a == pred_result::yes, bang = rn == pred_result::yes;
  if (a == pred_result::fail)
    vp_assert (!q && !bang, "when X reports an error neither ?X nor !X holds");
  else
    vp_assert (q != bang, "?X holds exactly when !X does not");
  pred_and pa {std::make_unique <P_fixed> (a), std::make_unique <P_fixed> (b)};
  pred_or po {std::make_unique <P_fixed> (a), std::make_unique <P_fixed> (b)};
  vp_assert (pa.result (sc, stk) == (a && b), "pred_and = &&");
  vp_assert (po.result (sc, stk) == (a || b), "pred_or = ||");
}

// maybe_invert: positive keeps the predicate, negative wraps it in a negation
template <bool POSITIVE> static inline void
h_invert ()
{
  pred_result a = nd_result ();
  scon &sc = reinterpret_cast <scon &> (*(char *) 64);
  stack &stk = reinterpret_cast <stack &> (*(char *) 128);
  auto mi = maybe_invert (std::make_unique <P_fixed> (a), POSITIVE);
  pred_result rm = mi->result (sc, stk);
  vp_assert (rm == (POSITIVE ? a : !a), "maybe_invert (positive) = X, (negative) = !X");
  bool holds = rm == pred_result::yes;
  if (a == pred_result::fail)
    vp_assert (!holds, "an erroring X makes neither ?X nor !X hold");
}
VP_HARNESS (c04_invert_pos) { h_invert <true> (); }
VP_HARNESS (c04_invert_neg) { h_invert <false> (); }
