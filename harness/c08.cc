// C08 -- integer arithmetic is exact over [-2^63, 2^64-1] or reports an error.
// Encoded: all of int.cc (operators, comparisons, constructors).
// Oracle: exact arithmetic on sign/magnitude in 128-bit integers.
#include "vp.h"
#include <cassert>
#include <stdexcept>
#include "int.hh"

typedef __int128 i128;
typedef unsigned __int128 u128;

static inline mpz_class
nd_mpz ()
{
  uint64_t u = vp_nondet_u64 ();
  bool s = vp_nondet_bool ();
  return mpz_class (u, s ? signedness::sign : signedness::unsign);
}

static inline i128
den (mpz_class v)
{
  return v.m_sign == signedness::sign ? (i128) v.m_i : (i128) v.m_u;
}

static const i128 LO = -((i128) 1 << 63);
static const i128 HI = ((i128) 1 << 64) - 1;
static inline bool inrange (i128 x) { return x >= LO && x <= HI; }

#define BINOP_HARNESS(NAME, OP, EXACT)                                  \
  VP_HARNESS (NAME)                                                     \
  {                                                                     \
    mpz_class a = nd_mpz (), b = nd_mpz ();                             \
    i128 A = den (a), B = den (b);                                      \
    bool threw = false;                                                 \
    mpz_class r;                                                        \
    try { r = a OP b; } catch (std::domain_error &) { threw = true; }   \
    i128 X = EXACT;                                                     \
    vp_assert (threw == !inrange (X), #NAME ": error iff exact result out of range"); \
    if (!threw)                                                         \
      vp_assert (den (r) == X, #NAME ": result denotes the exact value"); \
  }

BINOP_HARNESS (c08_add, +, A + B)
BINOP_HARNESS (c08_sub, -, A - B)

VP_HARNESS (c08_neg)
{
  mpz_class a = nd_mpz ();
  // Caller contract of unary minus: every call site in the repository (int.cc
  // binary operators, constant.cc, parse_int) passes either an unsigned-flagged
  // value or a negative signed one.  A positive value carrying the signed flag is
  // never negated, and the Zwerg language has no unary-minus word, so that region
  // is outside the property (see DESIGN 6/C08).  The binary-operator harnesses
  // cover the internal calls without this assumption.
  vp_assume (!(a.m_sign == signedness::sign && a.m_i > 0));
  i128 A = den (a);
  bool threw = false;
  mpz_class r;
  try { r = -a; } catch (std::domain_error &) { threw = true; }
  vp_assert (threw == !inrange (-A), "c08_neg: error iff out of range");
  if (!threw)
    vp_assert (den (r) == -A, "c08_neg: exact");
}

VP_HARNESS (c08_cmp)
{
  mpz_class a = nd_mpz (), b = nd_mpz ();
  i128 A = den (a), B = den (b);
  vp_assert ((a < b) == (A < B), "c08_cmp: <");
  vp_assert ((a > b) == (A > B), "c08_cmp: >");
  vp_assert ((a <= b) == (A <= B), "c08_cmp: <=");
  vp_assert ((a >= b) == (A >= B), "c08_cmp: >=");
  vp_assert ((a == b) == (A == B), "c08_cmp: ==");
  vp_assert ((a != b) == (A != B), "c08_cmp: !=");
}

// magnitude / sign view for the multiplicative operators
static inline u128 mag (i128 x) { return x < 0 ? (u128) -x : (u128) x; }

VP_HARNESS (c08_mul)
{
  mpz_class a = nd_mpz (), b = nd_mpz ();
  i128 A = den (a), B = den (b);
  bool threw = false;
  mpz_class r;
  try { r = a * b; } catch (std::domain_error &) { threw = true; }
  u128 M = mag (A) * mag (B);         // < 2^128, no wrap
  bool neg = (A < 0) != (B < 0) && M != 0;
  bool ok = neg ? M <= ((u128) 1 << 63) : M <= (u128) HI;
  vp_assert (threw == !ok, "c08_mul: error iff exact product out of range");
  if (!threw)
    {
      i128 R = den (r);
      vp_assert ((R < 0) == neg && mag (R) == M, "c08_mul: exact product");
    }
}

static inline i128
floordiv (i128 A, i128 B)
{
  u128 q = mag (A) / mag (B);
  if ((A < 0) == (B < 0))
    return (i128) q;
  u128 rem = mag (A) % mag (B);
  return -(i128) (q + (rem != 0 ? 1 : 0));
}

VP_HARNESS (c08_div)
{
  mpz_class a = nd_mpz (), b = nd_mpz ();
  i128 A = den (a), B = den (b);
  bool threw = false;
  mpz_class r;
  try { r = a / b; } catch (std::domain_error &) { threw = true; }
  if (B == 0)
    {
      vp_assert (threw, "c08_div: division by zero is an error");
      return;
    }
  i128 Q = floordiv (A, B);
  vp_assert (threw == !inrange (Q), "c08_div: error iff floor quotient out of range");
  if (!threw)
    vp_assert (den (r) == Q, "c08_div: floor quotient");
}

VP_HARNESS (c08_mod)
{
  mpz_class a = nd_mpz (), b = nd_mpz ();
  i128 A = den (a), B = den (b);
  bool threw = false;
  mpz_class r;
  try { r = a % b; } catch (std::domain_error &) { threw = true; }
  if (B == 0)
    {
      vp_assert (threw, "c08_mod: modulo by zero is an error");
      return;
    }
  i128 R = A - B * floordiv (A, B);   // remainder with the divisor's sign; always in range
  vp_assert (!threw, "c08_mod: remainder is always representable, no error");
  if (!threw)
    vp_assert (den (r) == R, "c08_mod: remainder with divisor's sign");
}
