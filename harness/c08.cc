// C08 -- integer arithmetic is exact over [-2^63, 2^64-1] or reports an error.
// Encoded: all of int.cc (operators, comparisons, constructors).
// Oracle: exact arithmetic on sign/magnitude in 128-bit integers.
#include "vp.h"
#include <cassert>
#include <stdexcept>
#include "int.hh"

typedef __int128 i128;
typedef unsigned __int128 u128;

static inline mpz_class
nd_mpz ()
{
  uint64_t u = vp_nondet_u64 ();
  bool s = vp_nondet_bool ();
  return mpz_class (u, s ? signedness::sign : signedness::unsign);
}

static inline i128
den (mpz_class v)
{
  return v.m_sign == signedness::sign ? (i128) v.m_i : (i128) v.m_u;
}

static const i128 LO = -((i128) 1 << 63);
static const i128 HI = ((i128) 1 << 64) - 1;
static inline bool inrange (i128 x) { return x >= LO && x <= HI; }

// magnitude / sign view for the multiplicative operators
static inline u128 mag (i128 x) { return x < 0 ? (u128) -x : (u128) x; }

#define BINOP_HARNESS(NAME, OP, EXACT)                                  \
  VP_HARNESS (NAME)                                                     \
  {                                                                     \
    mpz_class a = nd_mpz (), b = nd_mpz ();                             \
    i128 A = den (a), B = den (b);                                      \
    bool threw = false;                                                 \
    mpz_class r;                                                        \
    try { r = a OP b; } catch (std::domain_error &) { threw = true; }   \
    i128 X = EXACT;                                                     \
    vp_assert (threw == !inrange (X), #NAME ": error iff exact result out of range"); \
    if (!threw)                                                         \
      vp_assert (den (r) == X, #NAME ": result denotes the exact value"); \
  }

BINOP_HARNESS (c08_add, +, A + B)
BINOP_HARNESS (c08_sub, -, A - B)

VP_HARNESS (c08_neg)
{
  mpz_class a = nd_mpz ();
  // Caller contract of unary minus: every call site in the repository (int.cc
  // binary operators, constant.cc, parse_int) passes either an unsigned-flagged
  // value or a negative signed one.  A positive value carrying the signed flag is
  // never negated, and the Zwerg language has no unary-minus word, so that region
  // is outside the property (see DESIGN 6/C08).  The binary-operator harnesses
  // cover the internal calls without this assumption.
  vp_assume (!(a.m_sign == signedness::sign && a.m_i > 0));
  i128 A = den (a);
  bool threw = false;
  mpz_class r;
  try { r = -a; } catch (std::domain_error &) { threw = true; }
  vp_assert (threw == !inrange (-A), "c08_neg: error iff out of range");
  if (!threw)
    vp_assert (den (r) == -A, "c08_neg: exact");
}

VP_HARNESS (c08_cmp)
{
  mpz_class a = nd_mpz (), b = nd_mpz ();
  i128 A = den (a), B = den (b);
  vp_assert ((a < b) == (A < B), "c08_cmp: <");
  vp_assert ((a > b) == (A > B), "c08_cmp: >");
  vp_assert ((a <= b) == (A <= B), "c08_cmp: <=");
  vp_assert ((a >= b) == (A >= B), "c08_cmp: >=");
  vp_assert ((a == b) == (A == B), "c08_cmp: ==");
  vp_assert ((a != b) == (A != B), "c08_cmp: !=");
}


#ifndef VP_W
#define VP_W 8
#endif
// Operand classes for the multiplicative operators (DESIGN 6/C08): the monolithic
// 64x64-bit query does not finish, so each harness restricts ONE quantity to
// magnitude < 2^VP_W and leaves the other operand fully symbolic (64-bit payload x
// signedness).  CLS: 0 = no restriction, 1 = |a| small, 2 = |b| small,
// 3 = quotient small (|a| >> VP_W < |b|), 4 = both within 2^VP_W of a power of two
enum { ANY, SMALL_A, SMALL_B, SMALL_Q, NEAR_POW2 };
static inline bool near_pow2 (u128 m)
{
  bool r = false;
  for (int k = 0; k <= 64; ++k)
    {
      u128 p = (u128) 1 << k;
      u128 d = m > p ? m - p : p - m;
      if (d < 4) r = true;
    }
  return r;
}
template <int CLS> static inline void
restrict_class (i128 A, i128 B)
{
  const u128 lim = (u128) 1 << VP_W;
  if (CLS == SMALL_A) vp_assume (mag (A) < lim);
  if (CLS == SMALL_B) vp_assume (mag (B) < lim);
  if (CLS == SMALL_Q) vp_assume ((mag (A) >> VP_W) < mag (B));
  if (CLS == NEAR_POW2) vp_assume (near_pow2 (mag (A)) && near_pow2 (mag (B)));
}

template <int CLS> static inline void
h_mul ()
{
  mpz_class a = nd_mpz (), b = nd_mpz ();
  i128 A = den (a), B = den (b);
  restrict_class<CLS> (A, B);
  bool threw = false;
  mpz_class r;
  try { r = a * b; } catch (std::domain_error &) { threw = true; }
  u128 M = (u128) (uint64_t) mag (A) * (u128) (uint64_t) mag (B);   // 64x64 -> 128, no wrap (|A|,|B| < 2^64)
  bool neg = (A < 0) != (B < 0) && M != 0;
  bool ok = neg ? M <= ((u128) 1 << 63) : M <= (u128) HI;
  vp_assert (threw == !ok, "c08_mul: error iff exact product out of range");
  if (!threw)
    {
      i128 R = den (r);
      vp_assert ((R < 0) == neg && mag (R) == M, "c08_mul: exact product");
    }
}


// signed product of two values of the representable range, exact in 128 bits when
// |x*y| < 2^127; OK is cleared otherwise
static inline i128
sprod (i128 x, i128 y, bool &ok)
{
  // 64x64->128 product; ll2c routes (u128)(u64) * (u128)(u64) through vp_mul64x64
  u128 p = (u128) (uint64_t) mag (x) * (u128) (uint64_t) mag (y);
  if (p >> 100)
    ok = false;
  i128 sp = (i128) p;
  return ((x < 0) != (y < 0)) ? -sp : sp;
}

// Q is the floor quotient of A by B (B != 0) iff the remainder A - Q*B has the
// divisor's sign and smaller magnitude.  No division is performed by the oracle.
static inline bool
is_floor_quotient (i128 A, i128 B, i128 Q)
{
  bool ok = true;
  i128 D = A - sprod (Q, B, ok);
  if (!ok)
    return false;
  return B > 0 ? (D >= 0 && D < B) : (D <= 0 && D > B);
}

// floor(A/B) leaves [-2^63, 2^64-1] only for B == -1 and A > 2^63 (|floor(A/B)| <= |A|
// < 2^64, and a negative quotient below -2^63 needs |A|/|B| > 2^63, i.e. |B| == 1).
static inline bool
quotient_out_of_range (i128 A, i128 B)
{
  return B == -1 && A > ((i128) 1 << 63);
}

static inline bool
div_bias_region (i128 A, i128 B)
{
  return (A < 0) != (B < 0) && A != 0 && mag (A) + mag (B) - 1 > (u128) HI;
}

template <int CLS> static inline void
h_div ()
{
  mpz_class a = nd_mpz (), b = nd_mpz ();
  i128 A = den (a), B = den (b);
  restrict_class<CLS> (A, B);
  bool threw = false;
  mpz_class r;
  try { r = a / b; } catch (std::domain_error &) { threw = true; }
  if (B == 0)
    {
      vp_assert (threw, "c08_div: division by zero is an error");
      return;
    }
#ifdef VP_KF_div_bias
  // known finding div_bias (known-findings.txt): for operands of different sign operator/ biases
  // the dividend by |b| - 1 and reports an overflow when |a| + |b| - 1 >= 2^64, although the
  // quotient is representable (pinned by libzwerg/test-int.cc: UINT64_MAX / -2).  The region is
  // excluded here so that any OTHER violation is still reported; c08_div_kf_bias confirms it.
  vp_assume (!div_bias_region (A, B));
#endif
  vp_assert (threw == quotient_out_of_range (A, B), "c08_div: error iff floor quotient out of range");
  if (!threw)
    vp_assert (is_floor_quotient (A, B, den (r)), "c08_div: floor quotient");
}

template <int CLS> static inline void
h_mod ()
{
  mpz_class a = nd_mpz (), b = nd_mpz ();
  i128 A = den (a), B = den (b);
  restrict_class<CLS> (A, B);
  bool threw = false;
  mpz_class r;
  try { r = a % b; } catch (std::domain_error &) { threw = true; }
  if (B == 0)
    {
      vp_assert (threw, "c08_mod: modulo by zero is an error");
      return;
    }
  // the remainder with the divisor's sign has magnitude < |B|: always representable
  vp_assert (!threw, "c08_mod: remainder is always representable, no error");
  if (threw)
    return;
  i128 R = den (r);
  vp_assert (B > 0 ? (R >= 0 && R < B) : (R <= 0 && R > B), "c08_mod: remainder has the divisor's sign and smaller magnitude");
  // Oracle: the floor remainder expressed through the unsigned 64-bit remainder of the magnitudes
  // (a trusted primitive, the same one the hardware provides): m = |A| mod |B|; the result is 0 if
  // m == 0, m if the signs agree, |B| - m otherwise, carrying the sign of B.
  uint64_t ma = (uint64_t) mag (A), mb = (uint64_t) mag (B);
  uint64_t m = ma % mb;
  i128 E = m == 0 ? (i128) 0 : ((A < 0) == (B < 0)) ? (i128) m : (i128) (mb - m);
  if (B < 0)
    E = -E;
  vp_assert (R == E, "c08_mod: remainder with the divisor's sign (floor modulo)");
}

// quick variant of the division check: quotient expressed through the unsigned 64-bit
// quotient/remainder of the magnitudes (trusted primitive); the thorough variant (h_div) uses the
// multiplication-based characterisation instead
template <int CLS> static inline void
h_divq ()
{
  mpz_class a = nd_mpz (), b = nd_mpz ();
  i128 A = den (a), B = den (b);
  restrict_class<CLS> (A, B);
  bool threw = false;
  mpz_class r;
  try { r = a / b; } catch (std::domain_error &) { threw = true; }
  if (B == 0)
    {
      vp_assert (threw, "c08_divq: division by zero is an error");
      return;
    }
#ifdef VP_KF_div_bias
  vp_assume (!div_bias_region (A, B));
#endif
  uint64_t ma = (uint64_t) mag (A), mb = (uint64_t) mag (B);
  uint64_t q = ma / mb, m = ma % mb;
  i128 Q = ((A < 0) == (B < 0)) ? (i128) q : -((i128) q + (m != 0 ? 1 : 0));
  vp_assert (threw == !inrange (Q), "c08_divq: error iff floor quotient out of range");
  if (!threw)
    vp_assert (den (r) == Q, "c08_divq: floor quotient");
}

VP_HARNESS (c08_mul_any) { h_mul<ANY> (); }
VP_HARNESS (c08_mul_smallA) { h_mul<SMALL_A> (); }
VP_HARNESS (c08_mul_smallB) { h_mul<SMALL_B> (); }
VP_HARNESS (c08_mul_pow2) { h_mul<NEAR_POW2> (); }
VP_HARNESS (c08_div_any) { h_div<ANY> (); }
VP_HARNESS (c08_div_smallB) { h_div<SMALL_B> (); }
VP_HARNESS (c08_div_smallQ) { h_div<SMALL_Q> (); }
VP_HARNESS (c08_mod_any) { h_mod<ANY> (); }
VP_HARNESS (c08_mod_smallB) { h_mod<SMALL_B> (); }
VP_HARNESS (c08_mod_smallQ) { h_mod<SMALL_Q> (); }

// confirms that the known finding div_bias is still present: in its region an overflow is reported
VP_HARNESS (c08_div_kf_bias)
{
  mpz_class a = nd_mpz (), b = nd_mpz ();
  i128 A = den (a), B = den (b);
  vp_assume (B != 0 && div_bias_region (A, B) && !quotient_out_of_range (A, B));
  bool threw = false;
  try { mpz_class r = a / b; (void) r; } catch (std::domain_error &) { threw = true; }
  vp_assert (threw, "KF div_bias: spurious overflow still reported in the known region");
}

VP_HARNESS (c08_divq_any) { h_divq<ANY> (); }
