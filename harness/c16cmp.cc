// C16 / C09 -- two address sets compare equal exactly when they denote the same set, and the
// comparison is a consistent total order.  Encoded: value_aset::cmp (value-aset.cc),
// compare<T> (value.hh), coverage::at/size.
// Symbolic: three canonical range lists of exactly N1, N2, N3 runs (N* <= 2, all
// combinations as separate harnesses) with FULLY symbolic 64-bit starts and ends.
#include "vp.h"
#include <cassert>
#include <vector>
#include "coverage.hh"
#include "value-aset.hh"

static inline std::vector<cov_range> &vec (coverage &c) { return reinterpret_cast<std::vector<cov_range> &> (c); }

struct model { uint64_t s[3]; uint64_t l[3]; unsigned n; };

static inline void
nd_state (coverage &c, model &m, unsigned K)
{
  m.n = K;
  vec (c).reserve (K + 1);
  uint64_t prev_end = 0;
  for (unsigned i = 0; i < K; ++i)
    {
      uint64_t s = vp_nondet_u64 (), e = vp_nondet_u64 ();
      vp_assume (s < e);
      if (i > 0)
        vp_assume (s > prev_end);
      m.s[i] = s;
      m.l[i] = e - s;
      prev_end = e;
      vec (c).push_back (cov_range {s, e - s});
    }
}

// the documented order of address sets: by number of runs, then run by run (start, then length)
static inline int
ref_cmp (model const &a, model const &b)
{
  if (a.n != b.n)
    return a.n < b.n ? -1 : 1;
  for (unsigned i = 0; i < a.n; ++i)
    {
      if (a.s[i] != b.s[i])
        return a.s[i] < b.s[i] ? -1 : 1;
      if (a.l[i] != b.l[i])
        return a.l[i] < b.l[i] ? -1 : 1;
    }
  return 0;
}

static inline int
as_int (cmp_result r)
{
  return r == cmp_result::less ? -1 : r == cmp_result::greater ? 1 : r == cmp_result::equal ? 0 : 99;
}

template <int N1, int N2, int N3> static inline void
h_cmp ()
{
  coverage ca, cb, cc;
  model ma, mb, mc;
  nd_state (ca, ma, N1);
  nd_state (cb, mb, N2);
  nd_state (cc, mc, N3);
  value_aset a {ca, 0}, b {cb, 0}, c {cc, 0};
  int ab = as_int (a.cmp (b)), ba = as_int (b.cmp (a)), bc = as_int (b.cmp (c)), ac = as_int (a.cmp (c));
  vp_assert (ab != 99 && ba != 99 && bc != 99 && ac != 99, "cmp of two address sets never fails");
  vp_assert (as_int (a.cmp (a)) == 0, "an address set equals itself");
  vp_assert (ab == -ba, "A < B iff B > A; A == B iff B == A");
  bool same = ma.n == mb.n;
  for (unsigned i = 0; i < ma.n && i < mb.n; ++i)
    if (ma.s[i] != mb.s[i] || ma.l[i] != mb.l[i])
      same = false;
  vp_assert ((ab == 0) == same, "equal exactly when the canonical run lists (hence the denoted sets) are the same");
  vp_assert (ab == ref_cmp (ma, mb), "order: by number of runs, then run by run (start, length) as unsigned 64-bit values");
  if (ab < 0 && bc < 0)
    vp_assert (ac < 0, "< is transitive");
  if (ab == 0 && bc == 0)
    vp_assert (ac == 0, "== is transitive");
}

VP_HARNESS (c16_cmp_111) { h_cmp<1, 1, 1> (); }
VP_HARNESS (c16_cmp_222) { h_cmp<2, 2, 2> (); }
VP_HARNESS (c16_cmp_122) { h_cmp<1, 2, 2> (); }
VP_HARNESS (c16_cmp_012) { h_cmp<0, 1, 2> (); }
