// C20 (kernel) -- the constant name tables are exactly the system header's.
// dwcst.cc is compiled INTO this translation unit (its stringers are static functions).
#include "dwcst.cc"
#include "vp.h"
#include "c20_tables.h"       // generated at check time from /usr/include/dwarf.h by checks/C20.py

static inline bool
streq (const char *a, const char *b)
{
  for (unsigned i = 0; i < 64; ++i)
    {
      if (a[i] != b[i])
        return false;
      if (a[i] == 0)
        return true;
    }
  return false;
}

template <class F> static inline void
check_family (F stringer, const struct c20_ent *tab, unsigned n, unsigned pfx)
{
  // (a) every code the header defines renders as one of the header's names for it
  for (unsigned i = 0; i < n; ++i)
    {
      const char *full = stringer (tab[i].code, brevity::full);
      const char *brief = stringer (tab[i].code, brevity::brief);
      vp_assert (full != nullptr && brief != nullptr, "a code defined in dwarf.h has a name");
      if (full != nullptr && brief != nullptr)
        {
          bool ok = false;
          for (unsigned k = 0; k < 4; ++k)
            if (tab[i].names[k] != nullptr && streq (full, tab[i].names[k]))
              ok = true;
          vp_assert (ok, "the name is one the header gives to that number");
          vp_assert (streq (brief, full + pfx), "the brief form is the full name without the family prefix");
        }
    }
  // (b) no other code gets a name
  int code = (int) vp_nondet_u32 ();
  bool known = false;
  for (unsigned i = 0; i < n; ++i)
    if (tab[i].code == code)
      known = true;
  vp_assume (!known);
  vp_assert (stringer (code, brevity::full) == nullptr && stringer (code, brevity::brief) == nullptr,
             "a code the header does not define is never rendered as a known name");
}

#define FAM(name) VP_HARNESS (c20_##name) { check_family (dwarf_##name##_string, c20_tab_##name, C20_N_##name, C20_PFX_##name); }
FAM (tag) FAM (attr) FAM (form) FAM (lang) FAM (inline) FAM (encoding) FAM (access) FAM (visibility) FAM (virtuality)
FAM (identifier_case) FAM (calling_convention) FAM (ordering) FAM (discr_list) FAM (decimal_sign) FAM (locexpr_opcode)
FAM (endianity) FAM (defaulted)
