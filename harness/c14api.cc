// C14 (kernel, API boundary) -- every fallible API call returns NULL/false exactly when it sets an error
// object with a non-empty message; no exception crosses the C boundary; a query given with explicit length
// is never read outside that length; run-time failures of a query surface through zw_result_next returning
// false.  Encoded: libzwerg.cc (zw_query_parse_len, zw_query_parse, zw_query_execute, zw_result_next,
// zw_value_init_str_len, zw_stack_*, zw_error_*), libzwergP.hh (capture_errors, allocate_error, zw_result),
// tree.cc (tree value semantics, simplify), scon.cc/op.cc (scon_guard, op_origin).
// Environment: the parser (parse_query) and the op builder (tree::build_exec) are replaced by stubs defined
// here that may fail in every way the real ones do -- std::runtime_error (syntax errors, unknown words),
// std::invalid_argument (`0x': bare stoull), a non-std exception -- or succeed; the compiled query is a
// protocol stub operator that yields stacks, ends, or throws at a chosen pull index.
#define VP_OPS_IMPL
#include "ops.hh"
#include <stdexcept>
#include <cstring>
#include <cstdlib>
#include "libzwerg.h"
#include "libzwergP.hh"
#include "tree.hh"
#include "builtin.hh"

static unsigned g_parse_outcome;   // 0 ok, 1 runtime_error, 2 invalid_argument, 3 non-std exception, 4 out_of_range
static unsigned g_build_outcome;   // 0 ok, 1 runtime_error
static unsigned g_parse_len;       // length the parser saw
static uint8_t g_parse_bytes[8];

static void
throw_kind (unsigned kind)
{
  switch (kind)
    {
    case 1: throw std::runtime_error ("syntax error");
    case 2: throw std::invalid_argument ("stoull");
    case 3: throw 42;
    case 4: throw std::out_of_range ("stoull");
    }
}

// stub of parser.yy's entry
tree
parse_query (std::string str)
{
  g_parse_len = str.length ();
  for (unsigned i = 0; i < 8; ++i)
    if (i < str.length ())
      g_parse_bytes[i] = (uint8_t) str[i];
  throw_kind (g_parse_outcome);
  return tree (tree_type::NOP);
}

// stub of build.cc's entry
std::shared_ptr <op>
tree::build_exec (layout &l, std::shared_ptr <op> upstream, vocabulary const &voc) const
{
  throw_kind (g_build_outcome);
  return upstream;
}

static inline void
check_contract (bool failed, zw_error *err)
{
  vp_assert (failed == (err != nullptr), "NULL/false is returned exactly when the error object is set");
  if (err != nullptr)
    {
      char const *msg = zw_error_message (err);
      vp_assert (msg != nullptr && msg[0] != '\0', "the error object holds a non-empty message");
      zw_error_destroy (err);
    }
}

// ---- zw_query_parse_len: explicit length, no terminator, buffer of exactly that size
static inline void
run_parse_len (unsigned n, unsigned pk, unsigned bk)
{
  g_parse_outcome = pk;
  g_build_outcome = bk;
  zw_vocabulary voc { std::make_unique <vocabulary> () };
  char *q = (char *) malloc (n > 0 ? n : 1);
  vp_assume (q != nullptr);
  uint8_t b[4];
  for (unsigned i = 0; i < 4; ++i)
    {
      b[i] = vp_nondet_u8 ();
      vp_assume (b[i] != 0);          // no embedded NUL here; the byte after the buffer does not exist
      if (i < n)
        q[i] = (char) b[i];
    }
  zw_error *err = nullptr;
  zw_query *r = zw_query_parse_len (&voc, q, n, &err);
  vp_assert (g_parse_len == n, "the parser is given exactly the announced length");
  for (unsigned i = 0; i < 4; ++i)
    if (i < n)
      vp_assert (g_parse_bytes[i] == b[i], "the parser is given the caller's bytes");
  vp_assert ((r == nullptr) == (pk != 0 || bk != 0), "a query is returned iff parsing and building succeeded");
  check_contract (r == nullptr, err);
  if (r != nullptr)
    zw_query_destroy (r);
  free (q);
}

VP_HARNESS (c14api_parse_len)
{
  // scenario = (length 0..3) x (parser outcome 0..4) x (builder outcome 0..1)
  uint64_t lo = vp_range_lo (), hi = vp_range_hi ();
  if (hi > 40) hi = 40;
  uint64_t scen = vp_nondet_u64 ();
  vp_assume (scen >= lo && scen < hi);
  for (uint64_t s = lo; s < hi; ++s)
    if (scen == s)
      run_parse_len ((unsigned) (s % 4), (unsigned) ((s / 4) % 5), (unsigned) (s / 20));
}

// ---- zw_query_parse: NUL-terminated
static inline void
run_parse_z (unsigned n, unsigned pk)
{
  g_parse_outcome = pk;
  g_build_outcome = 0;
  zw_vocabulary voc { std::make_unique <vocabulary> () };
  char *q = (char *) malloc (n + 1);
  vp_assume (q != nullptr);
  for (unsigned i = 0; i < 4; ++i)
    if (i < n)
      {
        uint8_t c = vp_nondet_u8 ();
        vp_assume (c != 0);
        q[i] = (char) c;
      }
  q[n] = '\0';
  zw_error *err = nullptr;
  zw_query *r = zw_query_parse (&voc, q, &err);
  vp_assert (g_parse_len == n, "the parser is given the bytes before the terminator");
  vp_assert ((r == nullptr) == (pk != 0), "a query is returned iff parsing succeeded");
  check_contract (r == nullptr, err);
  if (r != nullptr)
    zw_query_destroy (r);
  free (q);
}

VP_HARNESS (c14api_parse_z)
{
  uint64_t lo = vp_range_lo (), hi = vp_range_hi ();
  if (hi > 20) hi = 20;
  uint64_t scen = vp_nondet_u64 ();
  vp_assume (scen >= lo && scen < hi);
  for (uint64_t s = lo; s < hi; ++s)
    if (scen == s)
      run_parse_z ((unsigned) (s % 4), (unsigned) (s / 4));
}

// ---- zw_query_execute / zw_result_next over a protocol stub operator
struct X_op : public inner_op
{
  struct state { unsigned m_pulls; };
  layout::loc m_ll;
  unsigned m_n;          // results before the end
  unsigned m_fail_at;    // pull index that fails (99: none)
  unsigned m_kind;       // how it fails
  uint64_t m_tok[3][2];
  mutable unsigned m_seen_depth;
  mutable uint64_t m_seen[2];

  X_op (layout &l, std::shared_ptr <op> upstream) : inner_op {upstream}, m_ll {l.reserve <state> ()}, m_seen_depth {77} {}
  std::string name () const override { return "X"; }
  void state_con (scon &sc) const override { sc.con <state> (m_ll); sc.get <state> (m_ll).m_pulls = 0; inner_op::state_con (sc); }
  void state_des (scon &sc) const override { inner_op::state_des (sc); sc.des <state> (m_ll); }
  stack::uptr next (scon &sc) const override
  {
    state &st = sc.get <state> (m_ll);
    unsigned idx = st.m_pulls++;
    if (idx == 0)
      {
        auto in = m_upstream->next (sc);
        vp_assert (in != nullptr, "the query's origin yields the input stack");
        if (in != nullptr)
          {
            m_seen_depth = in->size ();
            for (unsigned i = 0; i < 2; ++i)
              if (i < in->size ())
                m_seen[i] = tok_at (*in, i);
          }
      }
    if (idx == m_fail_at)
      throw_kind (m_kind);
    if (idx >= m_n)
      return nullptr;
    auto r = std::make_unique <stack> ();
    r->push (std::make_unique <value_tok> (m_tok[idx][1], 0));
    r->push (std::make_unique <value_tok> (m_tok[idx][0], 0));
    return r;
  }
};

static inline void
run_result (unsigned nres, unsigned fail_at, unsigned kind, unsigned indepth)
{
  layout l;
  auto origin = std::make_shared <op_origin> (l);
  auto x = std::make_shared <X_op> (l, origin);
  x->m_n = nres;
  x->m_fail_at = fail_at;
  x->m_kind = kind;
  for (unsigned i = 0; i < 3; ++i)
    for (unsigned j = 0; j < 2; ++j)
      x->m_tok[i][j] = nd_tok ();
  zw_query q {l, *origin, x};

  zw_error *err = nullptr;
  zw_stack *in = zw_stack_init (&err);
  check_contract (in == nullptr, err);
  vp_assert (in != nullptr, "zw_stack_init");
  uint64_t intok[2];
  for (unsigned i = 0; i < 2; ++i)
    if (i < indepth)
      {
        intok[i] = nd_tok ();
        err = nullptr;
        bool ok = zw_stack_push_take (in, new value_tok (intok[i], 0), &err);
        check_contract (!ok, err);
        vp_assert (ok, "zw_stack_push_take");
      }
  vp_assert (zw_stack_depth (in) == indepth, "zw_stack_depth");

  err = nullptr;
  zw_result *res = zw_query_execute (&q, in, &err);
  check_contract (res == nullptr, err);
  vp_assert (res != nullptr, "zw_query_execute");
  if (res == nullptr)
    return;

  bool failed = false;
  for (unsigned pull = 0; pull < 4 && !failed; ++pull)
    {
      zw_stack *out = nullptr;
      err = nullptr;
      bool ok = zw_result_next (res, &out, &err);
      check_contract (!ok, err);
      if (pull == 0)
        {
          // TOS was pushed last
          vp_assert (x->m_seen_depth == indepth, "the query sees a stack of the caller's depth");
          for (unsigned i = 0; i < 2; ++i)
            if (i < indepth)
              vp_assert (x->m_seen[i] == intok[indepth - 1 - i], "the query sees the caller's values, TOS = last pushed");
        }
      if (pull == fail_at)
        {
          vp_assert (!ok, "a run-time failure at this pull surfaces as false");
          failed = true;
        }
      else if (pull >= nres)
        {
          vp_assert (ok && out == nullptr, "the end of the results is true with a NULL stack");
          break;
        }
      else
        {
          vp_assert (ok && out != nullptr, "a result is true with a stack");
          if (ok && out != nullptr)
            {
              vp_assert (zw_stack_depth (out) == 2, "result depth");
              vp_assert (static_cast <value_tok const *> (zw_stack_at (out, 0))->m_tok == x->m_tok[pull][0], "TOS of the result");
              vp_assert (static_cast <value_tok const *> (zw_stack_at (out, 1))->m_tok == x->m_tok[pull][1], "below TOS of the result");
              zw_stack_destroy (out);
            }
        }
    }
  zw_result_destroy (res);
  zw_stack_destroy (in);
}

VP_HARNESS (c14api_result)
{
  // scenario = (results 0..2) x (failing pull 0..3, 3 = none) x (kind 1..3) x (input depth 0..2)
  uint64_t lo = vp_range_lo (), hi = vp_range_hi ();
  if (hi > 108) hi = 108;
  uint64_t scen = vp_nondet_u64 ();
  vp_assume (scen >= lo && scen < hi);
  for (uint64_t s = lo; s < hi; ++s)
    if (scen == s)
      {
        unsigned nres = s % 3, fa = (s / 3) % 4, kind = (s / 12) % 3 + 1, ind = s / 36;
        if (fa > nres)          // the failing pull has to be reached: at most the pull after the last result
          continue;
        run_result (nres, fa == 3 ? 99 : fa, kind, ind);
      }
}

// ---- zw_value_init_str_len: explicit length, exact buffer
static inline void
run_str (unsigned n)
{
  char *s = (char *) malloc (n > 0 ? n : 1);
  vp_assume (s != nullptr);
  uint8_t b[4];
  for (unsigned i = 0; i < 4; ++i)
    {
      b[i] = vp_nondet_u8 ();       // NUL bytes allowed
      if (i < n)
        s[i] = (char) b[i];
    }
  zw_error *err = nullptr;
  zw_value *v = zw_value_init_str_len (s, n, 3, &err);
  check_contract (v == nullptr, err);
  vp_assert (v != nullptr, "zw_value_init_str_len succeeds");
  if (v == nullptr)
    return;
  vp_assert (zw_value_is_str (v), "it is a string value");
  vp_assert (zw_value_pos (v) == 3, "position as given");
  size_t len = 99;
  char const *back = zw_value_str_str (v, &len);
  vp_assert (len == n, "length as given, embedded NUL bytes included");
  for (unsigned i = 0; i < 4; ++i)
    if (i < n)
      vp_assert ((uint8_t) back[i] == b[i], "bytes as given");
  zw_value_destroy (v);
  free (s);
}

VP_HARNESS (c14api_str)
{
  uint64_t scen = vp_nondet_u64 ();
  vp_assume (scen < 5);
  for (uint64_t s = 0; s < 5; ++s)
    if (scen == s)
      run_str ((unsigned) s);
}
