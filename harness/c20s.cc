// C20 (kernel, CLI string rendering) -- in the CLI's nested (brief) rendering a string is printed as a quoted
// literal that reads back as the same bytes, so different values never print alike.  Encoded: dumper::dump_charp
// (dwgrep/dwgrep.cc, compiled into this TU with main renamed), ios_flag_saver, libstdc++'s inline flag / width
// code, over the formatting stream model (stubs/ostream_fmt.c).
// Oracle: a reader for the inside of a Zwerg string literal written from libzwerg/lexer.ll's <STRING> rules
// (doc/syntax.rst, "String literals"): \a \b \e \t \n \v \f \r, \NNN octal with first digit 0..3 (greedy, up to
// three digits), \xHH, backslash-newline ignored, backslash-other = that character, %% = %, any other use of %
// followed by ( s x o b d is a format directive (not a plain byte), an unescaped " ends the literal.
#include "vp.h"
#include <sstream>
#include <string>
#define main dwgrep_cli_main
#include "../dwgrep/dwgrep.cc"
#undef main
extern "C" {
void vp_fmt_hint_digits (unsigned k);
void vp_fmt_hint_len (unsigned n);
uint32_t vp_cap_len (void);
uint8_t vp_cap_at (uint32_t i);
}
#ifdef __clang__
std::ostream &vp_os_manip (std::ostream &o, std::ios_base &(*pf) (std::ios_base &)) asm ("_ZNSolsEPFRSt8ios_baseS0_E");
std::ostream &vp_os_manip (std::ostream &o, std::ios_base &(*pf) (std::ios_base &)) { pf (o); return o; }
#endif

#define TEXT_MAX 24

static inline unsigned
grab (std::stringstream &ss, uint8_t *out)
{
#ifdef __clang__
  unsigned n = vp_cap_len ();
  for (unsigned i = 0; i < TEXT_MAX; ++i)
    out[i] = vp_cap_at (i);
  return n;
#else
  std::string s = ss.str ();
  for (unsigned i = 0; i < TEXT_MAX; ++i)
    out[i] = i < s.size () ? (uint8_t) s[i] : 0;
  return s.size ();
#endif
}

static inline bool is_oct (uint8_t c) { return c >= '0' && c <= '7'; }
static inline bool is_hex (uint8_t c) { return (c >= '0' && c <= '9') || (c >= 'a' && c <= 'f') || (c >= 'A' && c <= 'F'); }
static inline unsigned hexval (uint8_t c) { return c <= '9' ? c - '0' : (c | 0x20) - 'a' + 10; }

// reads the literal in TEXT[0..N); returns the number of bytes it denotes (into OUT, at most 8) and sets *END to
// the index just past the closing quote; 99 if TEXT is not a plain string literal
static inline unsigned
read_literal (uint8_t const *text, unsigned n, uint8_t *out, unsigned *end)
{
  *end = 0;
  if (n < 2 || text[0] != '"')
    return 99;
  unsigned i = 1, k = 0;
  for (unsigned step = 0; step < TEXT_MAX; ++step)
    {
      if (i >= n)
        return 99;                      // unterminated
      uint8_t c = text[i];
      if (c == '"')
        {
          *end = i + 1;
          return k;
        }
      uint8_t v;
      if (c == '\\')
        {
          if (i + 1 >= n)
            return 99;
          uint8_t d = text[i + 1];
          if (d >= '0' && d <= '3')
            {
              unsigned val = d - '0', len = 2;
              if (i + 2 < n && is_oct (text[i + 2]))
                {
                  val = val * 8 + (text[i + 2] - '0');
                  len = 3;
                  if (i + 3 < n && is_oct (text[i + 3]))
                    {
                      val = val * 8 + (text[i + 3] - '0');
                      len = 4;
                    }
                }
              v = (uint8_t) val;
              i += len;
            }
          else if (d == 'x' && i + 3 < n && is_hex (text[i + 2]) && is_hex (text[i + 3]))
            {
              v = (uint8_t) (hexval (text[i + 2]) * 16 + hexval (text[i + 3]));
              i += 4;
            }
          else if (d == '\n')
            {
              i += 2;
              continue;
            }
          else
            {
              switch (d)
                {
                case 'a': v = '\a'; break;
                case 'b': v = '\b'; break;
                case 'e': v = 0x1b; break;
                case 't': v = '\t'; break;
                case 'n': v = '\n'; break;
                case 'v': v = '\v'; break;
                case 'f': v = '\f'; break;
                case 'r': v = '\r'; break;
                default: v = d; break;
                }
              i += 2;
            }
        }
      else if (c == '%')
        {
          if (i + 1 < n && text[i + 1] == '%')
            {
              v = '%';
              i += 2;
            }
          else if (i + 1 < n && (text[i + 1] == '(' || text[i + 1] == 's' || text[i + 1] == 'x' || text[i + 1] == 'o'
                                 || text[i + 1] == 'b' || text[i + 1] == 'd'))
            return 99;                  // a format directive: not a plain string
          else
            {
              v = '%';
              i += 1;
            }
        }
      else
        {
          v = c;
          i += 1;
        }
      if (k >= 8)
        return 99;
      out[k++] = v;
    }
  return 99;
}

static inline void
run_charp (unsigned len)
{
  zw_vocabulary const *novoc = nullptr;
  char store[sizeof (dumper)] __attribute__ ((aligned (8)));
  dumper *d = reinterpret_cast <dumper *> (store);      // dump_charp uses no member
  char *buf = (char *) malloc (len > 0 ? len : 1);
  vp_assume (buf != nullptr);
  uint8_t b[4];
  for (unsigned i = 0; i < 4; ++i)
    {
      b[i] = vp_nondet_u8 ();
      if (i < len)
        buf[i] = (char) b[i];
    }
  std::stringstream ss;
  std::ios_base::fmtflags before = ss.flags ();
  char fill_before = ss.fill ();
  vp_fmt_hint_digits (0);
  d->dump_charp (ss, buf, len, dumper::format::brief);
  vp_assert (ss.flags () == before && ss.fill () == fill_before, "dump_charp leaves the stream's flags and fill as it found them");
  uint8_t text[TEXT_MAX];
  unsigned n = grab (ss, text);
  vp_assert (n < TEXT_MAX, "rendering of <= 3 bytes fits the text buffer");
  uint8_t back[8];
  unsigned end;
  unsigned k = read_literal (text, n, back, &end);
  vp_assert (k != 99, "the brief rendering is a plain, terminated string literal");
  vp_assert (end == n, "the literal ends exactly where the rendering ends");
  vp_assert (k == len, "reading it back yields as many bytes as the value has");
  for (unsigned i = 0; i < 4; ++i)
    if (i < len && k == len)
      vp_assert (back[i] == b[i], "reading it back yields the value's bytes");
  free (buf);
}

VP_HARNESS (c20_charp_brief)
{
  uint64_t lo = vp_range_lo (), hi = vp_range_hi ();
  if (hi > 4) hi = 4;
  uint64_t scen = vp_nondet_u64 ();
  vp_assume (scen >= lo && scen < hi);
  for (uint64_t s = lo; s < hi; ++s)
    if (scen == s)
      run_charp ((unsigned) s);
}
