// C18 (kernel) -- type / binding / visibility constants of ELF symbols are rendered in the constant
// family of the file's machine.  Encoded: elfsym_stt_dom / elfsym_stb_dom / elfsym_stv_dom, the
// per-machine domain classes' show () and most_enclosing () (value-symbol.cc), show, show_unknown.
#include "vp.h"
#include <sstream>
#include <string>
#include <elf.h>
#include "constant.hh"
#include "c18_tables.h"       // generated at check time from /usr/include/elf.h by checks/C18.py
constant_dom const &elfsym_stt_dom (int machine);
constant_dom const &elfsym_stb_dom (int machine);
constant_dom const &elfsym_stv_dom ();

static inline std::string
render (constant_dom const &dom, int code, brevity brv)
{
  std::stringstream ss;
  dom.show (mpz_class ((uint64_t) code, signedness::unsign), ss, brv);
  return ss.str ();
}

static inline const char *
lookup (const struct c18_ent *tab, int code)
{
  for (unsigned i = 0; tab[i].code >= 0; ++i)
    if (tab[i].code == code)
      return tab[i].name;
  return nullptr;
}

// PFX "STT"/"STB"/"STV"; ARCH table may be empty
static inline void
check_code (constant_dom const &dom, const char *pfx, const struct c18_ent *generic, const struct c18_ent *arch, int code)
{
  const char *want = lookup (arch, code);
  if (want == nullptr)
    want = lookup (generic, code);
  std::string full = render (dom, code, brevity::full);
  std::string brief = render (dom, code, brevity::brief);
  if (want != nullptr)
    {
      vp_assert (full == std::string (pfx) + "_" + want, "a code that elf.h names for this machine renders as that name");
      vp_assert (brief == want, "the brief form is the name without the family prefix");
    }
  else
    {
      // not a name of this machine's family (nor of the generic one)
      bool clash = false;
      for (unsigned i = 0; generic[i].code >= 0; ++i)
        if (brief == generic[i].name)
          clash = true;
      for (unsigned i = 0; arch[i].code >= 0; ++i)
        if (brief == arch[i].name)
          clash = true;
      vp_assert (!clash, "a code without a name for this machine is not rendered as a known name");
    }
}

static inline void
check_family (constant_dom const &dom, const char *pfx, const struct c18_ent *generic, const struct c18_ent *arch)
{
  for (int code = 0; code < 16; ++code)
    check_code (dom, pfx, generic, arch, code);
}

#define STT(A, EM) VP_HARNESS (c18_stt_##A) { check_family (elfsym_stt_dom (EM), "STT", c18_STT_NONE, c18_STT_##A); }
#define STB(A, EM) VP_HARNESS (c18_stb_##A) { check_family (elfsym_stb_dom (EM), "STB", c18_STB_NONE, c18_STB_##A); }
static const struct c18_ent c18_none[] = { { -1, 0 } };
#undef c18_STT_NONE_ARCH
VP_HARNESS (c18_stt_NONE) { check_family (elfsym_stt_dom (EM_NONE), "STT", c18_STT_NONE, c18_none); }
STT (ARM, EM_ARM) STT (SPARC, EM_SPARC) STT (PARISC, EM_PARISC) STT (MIPS, EM_MIPS) STT (X86_64, EM_X86_64)
VP_HARNESS (c18_stb_NONE) { check_family (elfsym_stb_dom (EM_NONE), "STB", c18_STB_NONE, c18_none); }
STB (ARM, EM_ARM) STB (SPARC, EM_SPARC) STB (PARISC, EM_PARISC) STB (MIPS, EM_MIPS) STB (X86_64, EM_X86_64)
VP_HARNESS (c18_stv) { check_family (elfsym_stv_dom (), "STV", c18_STV_NONE, c18_none); }

// ---- machine-specific codes never equal another machine's; common codes are the same constant for every machine
static inline int
em_of (unsigned i)
{
  switch (i)
    {
    case 0: return EM_ARM;
    case 1: return EM_SPARC;
    case 2: return EM_PARISC;
    case 3: return EM_MIPS;
    default: return EM_X86_64;
    }
}

static inline const struct c18_ent *
arch_table (bool stt, unsigned i)
{
  switch (i)
    {
    case 0: return stt ? c18_STT_ARM : c18_STB_ARM;
    case 1: return stt ? c18_STT_SPARC : c18_STB_SPARC;
    case 2: return stt ? c18_STT_PARISC : c18_STB_PARISC;
    case 3: return stt ? c18_STT_MIPS : c18_STB_MIPS;
    default: return stt ? c18_STT_X86_64 : c18_STB_X86_64;
    }
}

// NAMED: elf.h names this code for at least one of the two machines (a code that neither machine names is an
// anonymous LOPROC+n on both sides; the property asks nothing about those)
static inline void
cross (constant_dom const &da, constant_dom const &db, uint64_t code, bool named, unsigned loos)
{
  constant a {code, &da}, b {code, &db};
  if (named)
    {
      vp_assert (a != b && !(a == b), "a code that elf.h names for one machine is not equal to the same code of another machine");
      vp_assert ((a < b) != (b < a), "and the two are strictly ordered one way");
    }
  else if (code < loos)
    vp_assert (a == b && !(a != b) && !(a < b) && !(b < a), "a common code is the same constant whichever machine's file it came from");
}

VP_HARNESS (c18_cross_machine)
{
  // scenario = ordered pair of different machines (20); the code is symbolic
  uint64_t lo = vp_range_lo (), hi = vp_range_hi ();
  if (hi > 25) hi = 25;
  uint64_t scen = vp_nondet_u64 ();
  vp_assume (scen >= lo && scen < hi);
  uint64_t code = vp_nondet_u64 ();
  for (uint64_t s = lo; s < hi; ++s)
    if (scen == s && s % 5 != s / 5)
      {
        int ma = em_of (s % 5), mb = em_of (s / 5);
        bool stt_named = code < 16 && (lookup (arch_table (true, s % 5), (int) code) != nullptr || lookup (arch_table (true, s / 5), (int) code) != nullptr);
        bool stb_named = code < 16 && (lookup (arch_table (false, s % 5), (int) code) != nullptr || lookup (arch_table (false, s / 5), (int) code) != nullptr);
        cross (elfsym_stt_dom (ma), elfsym_stt_dom (mb), code, stt_named, STT_LOOS);
        cross (elfsym_stb_dom (ma), elfsym_stb_dom (mb), code, stb_named, STB_LOOS);
      }
}
