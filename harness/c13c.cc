// C13 / C01 (kernel, graphs built by build.cc) -- the operator graph and the state layout that the REAL builder
// (tree::build_exec, build.cc: the ALT, OR, IFELSE, SUBX_EVAL and F_BUILTIN cases, with layout::add_union for the
// three sub-layouts of if-then-else) produces for a tree whose leaves are stub builtins behave as the construct's
// denotation says.  If the builder reserved the state of one branch outside the union it hands to the operator
// (or forgot a branch), that branch's state would overlap the operator's own or lie outside the state buffer:
// the results change or CBMC's bounds checks fire.
// Scenario digits and oracle as in c01.cc (same digit order, so the driver's enumeration of valid scenarios applies).
#include "c01.cc"
#include "tree.hh"
#include "tree_cr.hh"
#include "builtin.hh"

// a pass-through operator that owns PAD bytes of state, filled with a pattern when the state is constructed and
// checked on every pull and at destruction: if the builder placed this state where something else lives, either
// side's writes show
static size_t g_max_end;       // furthest end of any state a stub reserved while the graph was built

template <unsigned PAD>
struct S_pad : public inner_op
{
  struct state { uint8_t m_canary[PAD]; };
  layout::loc m_ll;
  S_pad (layout &l, std::shared_ptr <op> upstream) : inner_op {upstream}, m_ll {l.reserve <state> ()}
  {
    if (m_ll.m_loc + sizeof (state) > g_max_end)
      g_max_end = m_ll.m_loc + sizeof (state);
  }
  std::string name () const override { return "pad"; }
  void fill (scon &sc) const { state &st = sc.get <state> (m_ll); for (unsigned i = 0; i < PAD; ++i) st.m_canary[i] = (uint8_t) (0xa5 ^ i); }
  void verify (scon &sc) const
  {
    state &st = sc.get <state> (m_ll);
    bool ok = true;
    for (unsigned i = 0; i < PAD; ++i)
      ok &= st.m_canary[i] == (uint8_t) (0xa5 ^ i);
    vp_assert (ok, "the state a branch owns is not overwritten by anything else (state areas are disjoint)");
  }
  void state_con (scon &sc) const override { sc.con <state> (m_ll); fill (sc); inner_op::state_con (sc); }
  void state_des (scon &sc) const override { inner_op::state_des (sc); verify (sc); sc.des <state> (m_ll); }
  stack::uptr next (scon &sc) const override
  {
    verify (sc);
    auto r = m_upstream->next (sc);
    verify (sc);
    fill (sc);
    return r;
  }
};

// a builtin whose operator is a mapping stub configured before the graph is built
struct B_map : public builtin
{
  unsigned m_cnt[6];
  uint64_t m_out[6][VP_M];
  unsigned m_pad = 0;        // 0, 1, 2: the operator also owns 16, 40, 72 bytes of checked state
  void configure (cfgdec &d, unsigned ninputs, unsigned maxcnt)
  {
    for (unsigned i = 0; i < 6; ++i)
      {
        m_cnt[i] = i < ninputs ? d.take (maxcnt + 1) : 0;
        for (unsigned k = 0; k < VP_M; ++k)
          m_out[i][k] = nd_tok ();
      }
  }
  std::shared_ptr <op> build_exec (layout &l, std::shared_ptr <op> upstream) const override
  {
    auto s = std::make_shared <S_map> (l, upstream);
    for (unsigned i = 0; i < 6; ++i)
      {
        s->m_cnt[i] = m_cnt[i];
        for (unsigned k = 0; k < VP_M; ++k)
          s->m_out[i][k] = m_out[i][k];
      }
    switch (m_pad)
      {
      case 0: return std::make_shared <S_pad <16>> (l, s);
      case 1: return std::make_shared <S_pad <40>> (l, s);
      default: return std::make_shared <S_pad <72>> (l, s);
      }
  }
  char const *name () const override { return "B"; }
};

static inline void
appb (denot &d, B_map const &s, unsigned i)
{
  for (unsigned k = 0; k < s.m_cnt[i]; ++k)
    if (d.n < MAXF)
      d.v[d.n++] = s.m_out[i][k];
}

static inline bool
cfg_valid (inputs const &in, std::shared_ptr <B_map> const *b, unsigned nb)
{
  for (unsigned j = 0; j < nb; ++j)
    for (unsigned i = in.n; i < VP_T; ++i)
      if (b[j]->m_cnt[i] != 0)
        return false;
  return in.valid;
}

// ---- if B0 then B1 else B2, built by build.cc
VP_SCENARIOS (c13_built_ifelse, N_IFELSE)
{
  cfgdec d {k};
  layout l;
  auto u = std::make_shared <U_src> (l);
  inputs in;
  mk_inputs (d, in, *u);
  std::shared_ptr <B_map> b[3];
  for (unsigned j = 0; j < 3; ++j)
    {
      b[j] = std::make_shared <B_map> ();
      b[j]->configure (d, VP_T, 1);
    }
  // the three sub-expressions own differently sized state; which one is the largest rotates with the count vector
  for (unsigned j = 0; j < 3; ++j)
    b[j]->m_pad = (j + (unsigned) ((k / 9) % 3)) % 3;
  if (!cfg_valid (in, b, 3))
    return;
  auto t = tree::create_ternary <tree_type::IFELSE> (tree::create_builtin (b[0]), tree::create_builtin (b[1]), tree::create_builtin (b[2]));
  vocabulary voc;
  g_max_end = 0;
  std::shared_ptr <op> x = t->build_exec (l, u, voc);
  vp_assert (l.size () >= g_max_end, "every state reserved while the graph was built lies inside the size of the layout the state buffer is made from");
  if (l.size () < g_max_end)
    return;
  reslog log;
  drive (x, *u, l, in, log, VP_T * VP_M + 1);
  denot F[VP_T];
  for (unsigned i = 0; i < VP_T; ++i)
    {
      F[i].n = 0;
      if (b[0]->m_cnt[i] > 0)
        appb (F[i], *b[1], i);
      else
        appb (F[i], *b[2], i);
    }
  check (in, F, log, 2);
}

// ---- (B0, B1), built by build.cc
VP_SCENARIOS (c13_built_alt2, N_ALT2)
{
  cfgdec d {k};
  layout l;
  auto u = std::make_shared <U_src> (l);
  inputs in;
  mk_inputs (d, in, *u);
  std::shared_ptr <B_map> b[2];
  for (unsigned j = 0; j < 2; ++j)
    {
      b[j] = std::make_shared <B_map> ();
      b[j]->configure (d, VP_T, VP_MAXC);
      b[j]->m_pad = (j + (unsigned) ((k / 9) % 3)) % 3;
    }
  if (!cfg_valid (in, b, 2))
    return;
  auto t = tree::create_binary <tree_type::ALT> (tree::create_builtin (b[0]), tree::create_builtin (b[1]));
  vocabulary voc;
  g_max_end = 0;
  std::shared_ptr <op> x = t->build_exec (l, u, voc);
  vp_assert (l.size () >= g_max_end, "every state reserved while the graph was built lies inside the size of the layout the state buffer is made from");
  if (l.size () < g_max_end)
    return;
  reslog log;
  drive (x, *u, l, in, log, VP_T * 2 * VP_M + 1);
  denot F[VP_T];
  for (unsigned i = 0; i < VP_T; ++i)
    {
      F[i].n = 0;
      appb (F[i], *b[0], i);
      appb (F[i], *b[1], i);
    }
  check (in, F, log, 2);
}

// ---- (B0 || B1), built by build.cc
VP_SCENARIOS (c13_built_or2, N_ALT2)
{
  cfgdec d {k};
  layout l;
  auto u = std::make_shared <U_src> (l);
  inputs in;
  mk_inputs (d, in, *u);
  std::shared_ptr <B_map> b[2];
  for (unsigned j = 0; j < 2; ++j)
    {
      b[j] = std::make_shared <B_map> ();
      b[j]->configure (d, VP_T, VP_MAXC);
      b[j]->m_pad = (j + (unsigned) ((k / 9) % 3)) % 3;
    }
  if (!cfg_valid (in, b, 2))
    return;
  auto t = tree::create_binary <tree_type::OR> (tree::create_builtin (b[0]), tree::create_builtin (b[1]));
  vocabulary voc;
  g_max_end = 0;
  std::shared_ptr <op> x = t->build_exec (l, u, voc);
  vp_assert (l.size () >= g_max_end, "every state reserved while the graph was built lies inside the size of the layout the state buffer is made from");
  if (l.size () < g_max_end)
    return;
  reslog log;
  drive (x, *u, l, in, log, VP_T * VP_M + 1);
  denot F[VP_T];
  for (unsigned i = 0; i < VP_T; ++i)
    {
      F[i].n = 0;
      appb (F[i], *b[0], i);
      if (F[i].n == 0)
        appb (F[i], *b[1], i);
    }
  check (in, F, log, 2);
}
