// C20 (kernel, radix domains) -- integers render, in full form, in their domain's radix such that reading
// the text back as a literal gives an equal value of the same domain.  Encoded: the show () members of the
// dec / hex / oct / bin domains (constant.cc), operator<< (ostream &, mpz_class) and unary minus (int.cc),
// ios_flag_saver (flag_saver.hh), the real inline ios_base flag code and manipulators of libstdc++.
// Oracle: the text is [-] PREFIX DIGITS with PREFIX the literal prefix that parser.yy's parse_int maps back
// to the same domain (0x / 0 / 0b / none), DIGITS the digits of the magnitude without leading zeros computed
// here independently (decimal: uninterpreted, see stubs/ostream_fmt.c), and the stream's flags afterwards are
// what they were before.  That such a text parses back to the value and domain is C14's literal kernel.
#include "vp.h"
#include <sstream>
#include <string>
#include "constant.hh"
extern "C" {
void vp_fmt_hint_digits (unsigned k);
void vp_fmt_hint_len (unsigned n);
unsigned vp_fmt_dec (char *buf, uint64_t v);
}
#ifdef __clang__
// operator<< (ios_base &(*)(ios_base &)) of the stream model: apply the real manipulator
std::ostream &vp_os_manip (std::ostream &o, std::ios_base &(*pf) (std::ios_base &)) asm ("_ZNSolsEPFRSt8ios_baseS0_E");
std::ostream &vp_os_manip (std::ostream &o, std::ios_base &(*pf) (std::ios_base &)) { pf (o); return o; }
#endif

enum { R_DEC, R_HEX, R_OCT, R_BIN };

static inline constant_dom const &
dom_of (int radix)
{
  switch (radix)
    {
    case R_HEX: return hex_constant_dom;
    case R_OCT: return oct_constant_dom;
    case R_BIN: return bin_constant_dom;
    default: return dec_constant_dom;
    }
}

// signcase: 0 unsigned, 1 signed non-negative, 2 signed negative.  k: digit count of the magnitude in the radix
// (ignored for decimal).  Returns through MAG the magnitude, builds the value.
static inline mpz_class
make_value (int radix, unsigned signcase, unsigned k, uint64_t &mag)
{
  unsigned sh = radix == R_HEX ? 4 : radix == R_OCT ? 3 : 1;
  uint64_t raw = vp_nondet_u64 ();
  if (signcase == 2)
    {
      int64_t i = (int64_t) raw;
      vp_assume (i < 0);
      mag = (uint64_t) 0 - (uint64_t) i;
    }
  else
    {
      if (signcase == 1)
        vp_assume ((int64_t) raw >= 0);
      mag = raw;
    }
  if (radix != R_DEC)
    {
      vp_assume (k * sh >= 64 || (mag >> (k * sh)) == 0);
      vp_assume (k == 1 || (mag >> ((k - 1) * sh)) != 0);
    }
#ifdef VP_KF_radix_zero
  vp_assume (mag != 0);
#endif
  return signcase == 0 ? mpz_class (raw, signedness::unsign) : mpz_class (raw, signedness::sign);
}

static inline std::string
expected (int radix, bool neg, uint64_t mag, unsigned k, brevity brv)
{
  std::string e;
  e.reserve (80);
  if (neg)
    e += '-';
  if (brv == brevity::full)
    e += radix == R_HEX ? "0x" : radix == R_OCT ? "0" : radix == R_BIN ? "0b" : "";
  if (radix == R_DEC)
    {
      char buf[24];
      unsigned n = vp_fmt_dec (buf, mag);
      for (unsigned i = 0; i < 20; ++i)
        if (i < n)
          e += buf[i];
    }
  else
    {
      unsigned sh = radix == R_HEX ? 4 : radix == R_OCT ? 3 : 1;
      for (unsigned i = 0; i < 64; ++i)
        if (i < k)
          {
            unsigned d = (unsigned) ((mag >> ((k - 1 - i) * sh)) & ((1u << sh) - 1));
            e += (char) (d < 10 ? '0' + d : 'a' + d - 10);
          }
    }
  return e;
}

static inline void
run_radix (int radix, unsigned signcase, unsigned k)
{
  uint64_t mag;
  mpz_class v = make_value (radix, signcase, k, mag);
  bool neg = signcase == 2;
  for (int b = 0; b < 2; ++b)
    {
      brevity brv = b == 0 ? brevity::full : brevity::brief;
      std::string want = expected (radix, neg, mag, k, brv);
      std::stringstream ss;
      std::ios_base::fmtflags before = ss.flags ();
      vp_fmt_hint_digits (k);
      vp_fmt_hint_len (want.size ());
      dom_of (radix).show (v, ss, brv);
      vp_assert (ss.flags () == before, "show leaves the stream's format flags as it found them");
      std::string got = ss.str ();
      vp_assert (got == want, "the rendering is [-] prefix digits of the magnitude, which reads back as the same value in the same domain");
    }
}

#define RADIX_HARNESS(NAME, RADIX, MAXK)                                \
  VP_HARNESS (NAME)                                                     \
  {                                                                     \
    uint64_t lo = vp_range_lo (), hi = vp_range_hi ();                  \
    if (hi > 3 * (MAXK)) hi = 3 * (MAXK);                               \
    uint64_t scen = vp_nondet_u64 ();                                   \
    vp_assume (scen >= lo && scen < hi);                                \
    for (uint64_t s = lo; s < hi; ++s)                                  \
      if (scen == s)                                                    \
        run_radix (RADIX, (unsigned) (s % 3), (unsigned) (s / 3) + 1);  \
  }

RADIX_HARNESS (c20_radix_dec, R_DEC, 1)
RADIX_HARNESS (c20_radix_hex, R_HEX, 16)
RADIX_HARNESS (c20_radix_oct, R_OCT, 22)
RADIX_HARNESS (c20_radix_bin, R_BIN, 64)

// confirms the known finding radix_zero (known-findings.txt), which make_value excludes: zero of the hex / oct / bin domain renders, in full form, as `0', which reads
// back as a decimal literal
static inline void
zero_case (int radix)
{
  std::stringstream ss;
  vp_fmt_hint_digits (1);
  vp_fmt_hint_len (1);
  dom_of (radix).show (mpz_class ((uint64_t) 0, signedness::unsign), ss, brevity::full);
  std::string got = ss.str ();
  vp_assert (got == "0", "KF radix_zero: zero of a hex/oct/bin domain still renders as the decimal literal 0");
}
VP_HARNESS (c20_radix_kf_zero)
{
  unsigned r = vp_nondet_u8 ();
  vp_assume (r >= R_HEX && r <= R_BIN);
  for (unsigned k = R_HEX; k <= R_BIN; ++k)
    if (r == k)
      zero_case (k);
}
